(* C08 — Gradient tracking propagates, isolates and retires exactly as specified.
   Statements only (proofs: Proofs/TrackP.v, DfsP.v, BpFlagsP.v; history level: Proofs/StepP.v
   when present).  For an arbitrary scalar type.  Reading guide:
     ctx_rule h ops n    the new node n is tracked iff some operand is tracked and none is spent
                         (dirty); it is spent iff some operand is spent; untracked nodes have no
                         back edges; it has no gradient;
     frame_ok h r        the call only appends nodes (existing nodes, all fields, untouched);
                         on Err/Panic the heap is unchanged;
     sim a b             same outcome kind/id and same values (erase = values only): tracking never
                         changes forward values;
     treach h root x     x is tracked and connected to root by back edges through tracked nodes
                         ("the tracked tensors it was computed from"; a comparison or a spent
                         operand cuts the chain because such results have no back edges);
     isolated h id       untracked, spent, no back edges. *)
From Coq Require Import List ZArith Bool.
From Qeep Require Import Model.Scalar Model.Nd Model.Data Model.Valid Model.Api Model.Grad Model.Backprop.
From Qeep Require Import Proofs.TrackP Proofs.DfsP Proofs.BpFlagsP.
Import ListNotations.

Theorem one_operand_results_follow_the_tracking_rule :
  forall (A : Type) (h : heap) (x : nat) (f : tensor A -> res (tensor A)) (mk : nat -> rule)
    (name : option nat) (h' : heap) (id : nat),
  h_op1 h x f mk name = (h', Ok id) ->
  exists n : node,
    nth_error h' id = Some n /\
    ctx_rule h [x] n /\
    nname n = name /\
    (exists xv : tensor A, valOf h x = Some xv /\ f xv = Ok (nval n)) /\
    (ntracked n = true -> nedges n = [(x, mk id)]) /\
    Forall (fun e : nat * rule => fst e < id) (nedges n).
Proof. exact @h_op1_track. Qed.
Print Assumptions one_operand_results_follow_the_tracking_rule.

Theorem arithmetic_results_follow_the_tracking_rule :
  forall (A : Type) (SA : Scalar A) (h : heap) (b : binary) (x u : nat) (name : option nat) 
    (h' : heap) (id : nat),
  h_arith h b x u name = (h', Ok id) ->
  exists n : node,
    nth_error h' id = Some n /\
    ctx_rule h [x; u] n /\
    nname n = name /\
    id = S (S (length h)) /\
    (exists xv uv : tensor A,
       valOf h x = Some xv /\ valOf h u = Some uv /\ v_arith b xv uv = Ok (nval n)) /\
    (ntracked n = true -> nedges n = arithEdges b id (length h) (S (length h))) /\
    Forall (fun e : nat * rule => fst e < id) (nedges n).
Proof. exact @h_arith_track. Qed.
Print Assumptions arithmetic_results_follow_the_tracking_rule.

Theorem dot_results_follow_the_tracking_rule :
  forall (A : Type) (SA : Scalar A) (h : heap) (x u : nat) (name : option nat) (h' : heap) (id : nat),
  h_dot h x u name = (h', Ok id) ->
  exists n : node,
    nth_error h' id = Some n /\
    ctx_rule h [x; u] n /\
    nname n = name /\
    id = S (S (length h)) /\
    (exists xv uv : tensor A, valOf h x = Some xv /\ valOf h u = Some uv /\ v_dot xv uv = Ok (nval n)) /\
    (ntracked n = true ->
     nedges n = [(length h, RDot id (S (length h))); (S (length h), RDot id (length h))]) /\
    Forall (fun e : nat * rule => fst e < id) (nedges n).
Proof. exact @h_dot_track. Qed.
Print Assumptions dot_results_follow_the_tracking_rule.

Theorem matmul_results_follow_the_tracking_rule :
  forall (A : Type) (SA : Scalar A) (h : heap) (x u : nat) (name : option nat) (h' : heap) (id : nat),
  h_matmul h x u name = (h', Ok id) ->
  exists n : node,
    nth_error h' id = Some n /\
    ctx_rule h [x; u] n /\
    nname n = name /\
    id = S (S (length h)) /\
    (exists xv uv : tensor A, valOf h x = Some xv /\ valOf h u = Some uv /\ v_matmul xv uv = Ok (nval n)) /\
    (ntracked n = true ->
     nedges n = [(length h, RMatMulA id (S (length h))); (S (length h), RMatMulB id (length h))]) /\
    Forall (fun e : nat * rule => fst e < id) (nedges n).
Proof. exact @h_matmul_track. Qed.
Print Assumptions matmul_results_follow_the_tracking_rule.

Theorem elmax_elmin_results_follow_the_tracking_rule :
  forall (A : Type) (SA : Scalar A) (h : heap) (b : binary) (x u : nat) (name : option nat) 
    (h' : heap) (id : nat),
  h_elsel h b x u name = (h', Ok id) ->
  exists n : node,
    nth_error h' id = Some n /\
    ctx_rule h [x; u] n /\
    nname n = name /\
    (exists xv uv : tensor A, valOf h x = Some xv /\ valOf h u = Some uv /\ v_same b xv uv = Ok (nval n)) /\
    (ntracked n = true -> nedges n = [(x, RElSel id x u); (u, RElSel id u x)]) /\
    Forall (fun e : nat * rule => fst e < id) (nedges n).
Proof. exact @h_elsel_track. Qed.
Print Assumptions elmax_elmin_results_follow_the_tracking_rule.

Theorem patch_results_follow_the_tracking_rule :
  forall (A : Type) (h : heap) (x : nat) (index : list zrange) (p : nat) (name : option nat) 
    (h' : heap) (id : nat),
  h_patch h x index p name = (h', Ok id) ->
  exists n : node,
    nth_error h' id = Some n /\
    ctx_rule h [x; p] n /\
    nname n = name /\
    (exists xv pv : tensor A,
       valOf h x = Some xv /\ valOf h p = Some pv /\ v_patch xv index pv = Ok (nval n)) /\
    (ntracked n = true -> nedges n = [(x, RPatchX id p index); (p, RPatchP id p index)]) /\
    Forall (fun e : nat * rule => fst e < id) (nedges n).
Proof. exact @h_patch_track. Qed.
Print Assumptions patch_results_follow_the_tracking_rule.

Theorem concat_results_follow_the_tracking_rule :
  forall (A : Type) (h : heap) (xs : list nat) (dim : Z) (name : option nat) (h' : heap) (id : nat),
  h_concat h xs dim name = (h', Ok id) ->
  exists n : node,
    nth_error h' id = Some n /\
    ctx_rule h xs n /\
    nname n = name /\
    (exists vs : list (tensor A),
       mapM (valOf h) xs = Some vs /\
       v_concat vs dim = Ok (nval n) /\ (ntracked n = true -> map fst (nedges n) = xs)) /\
    Forall (fun e : nat * rule => fst e < id) (nedges n).
Proof. exact @h_concat_track. Qed.
Print Assumptions concat_results_follow_the_tracking_rule.

Theorem comparison_results_are_untracked :
  forall (A : Type) (SA : Scalar A) (h : heap) (b : binary) (x u : nat) (name : option nat) 
    (h' : heap) (id : nat),
  h_cmp h b x u name = (h', Ok id) ->
  exists n : node,
    nth_error h' id = Some n /\
    ntracked n = false /\
    ndirty n = false /\
    nedges n = [] /\
    ngrad n = None /\
    nname n = name /\
    (exists xv uv : tensor A, valOf h x = Some xv /\ valOf h u = Some uv /\ v_same b xv uv = Ok (nval n)).
Proof. exact @h_cmp_track. Qed.
Print Assumptions comparison_results_are_untracked.

Theorem tracked_iff_some_operand_tracked_and_none_spent :
  forall (A : Type) (h : @heap A) (ops : list nat) (n : @node A),
  @ctx_rule A h ops n ->
  @ntracked A n = true <->
  (exists x : nat, @In nat x ops /\ @trackedOf A h x = true) /\
  (forall x : nat, @In nat x ops -> @dirtyOf A h x = false).
Proof. exact @ctx_rule_tracked_iff. Qed.
Print Assumptions tracked_iff_some_operand_tracked_and_none_spent.

Theorem spent_operand_gives_isolated_result :
  forall (A : Type) (h : @heap A) (ops : list nat) (n : @node A) (x : nat),
  @ctx_rule A h ops n ->
  @In nat x ops ->
  @dirtyOf A h x = true -> @ntracked A n = false /\ @ndirty A n = true /\ @nedges A n = [].
Proof. exact @ctx_rule_dirty. Qed.
Print Assumptions spent_operand_gives_isolated_result.

Theorem calls_only_append_nodes_arith :
  forall (A : Type) (SA : Scalar A) (h : heap) (b : binary) (x u : nat) (name : option nat),
  frame_ok h (h_arith h b x u name).
Proof. exact @h_arith_frame. Qed.
Print Assumptions calls_only_append_nodes_arith.

Theorem calls_only_append_nodes_one_operand :
  forall (A : Type) (h : heap) (x : nat) (f : tensor A -> res (tensor A)) (mk : nat -> rule)
    (name : option nat), frame_ok h (h_op1 h x f mk name).
Proof. exact @h_op1_frame. Qed.
Print Assumptions calls_only_append_nodes_one_operand.

Theorem calls_only_append_nodes_concat :
  forall (A : Type) (h : @heap A) (xs : list nat) (dim : Z) (name : option nat),
  @frame_ok A h (@h_concat A h xs dim name).
Proof. exact @h_concat_frame. Qed.
Print Assumptions calls_only_append_nodes_concat.

Theorem tracking_never_changes_forward_values_arith :
  forall (A : Type) (SA : Scalar A) (h1 h2 : heap) (b : binary) (x u : nat) (nm1 nm2 : option nat),
  erase h1 = erase h2 -> sim (h_arith h1 b x u nm1) (h_arith h2 b x u nm2).
Proof. exact @h_arith_values. Qed.
Print Assumptions tracking_never_changes_forward_values_arith.

Theorem tracking_never_changes_forward_values_one_operand :
  forall (A : Type) (h1 h2 : heap) (x : nat) (f : tensor A -> res (tensor A)) 
    (mk1 mk2 : nat -> rule) (nm1 nm2 : option nat),
  erase h1 = erase h2 -> sim (h_op1 h1 x f mk1 nm1) (h_op1 h2 x f mk2 nm2).
Proof. exact @h_op1_values. Qed.
Print Assumptions tracking_never_changes_forward_values_one_operand.

Theorem tracking_never_changes_forward_values_matmul :
  forall (A : Type) (SA : Scalar A) (h1 h2 : heap) (x u : nat) (nm1 nm2 : option nat),
  erase h1 = erase h2 -> sim (h_matmul h1 x u nm1) (h_matmul h2 x u nm2).
Proof. exact @h_matmul_values. Qed.
Print Assumptions tracking_never_changes_forward_values_matmul.

Theorem reset_makes_a_fresh_leaf :
  forall (A : Type) (h : @heap A) (x : nat) (tracked : bool),
  @length (@node A) (@h_reset A h x tracked) = @length (@node A) h /\
  (forall n : @node A,
   @nth_error (@node A) h x = @Some (@node A) n ->
   @nth_error (@node A) (@h_reset A h x tracked) x =
   @Some (@node A)
     {|
       nval := @nval A n;
       ntracked := tracked;
       ndirty := false;
       ngrad := @None (tensor A);
       nedges := [];
       nname := @nname A n
     |}) /\
  (forall j : nat, j <> x -> @nth_error (@node A) (@h_reset A h x tracked) j = @nth_error (@node A) h j) /\
  @erase A (@h_reset A h x tracked) = @erase A h.
Proof. exact @h_reset_spec. Qed.
Print Assumptions reset_makes_a_fresh_leaf.

Theorem backprop_from_untracked_root_changes_nothing :
  forall (A : Type) (SA : Scalar A) (rd : bred) (sealg : option nat -> tensor A -> tensor A) 
    (h : heap) (root : nat), trackedOf h root = false -> bp_topo rd sealg h root = (h, [], Ok tt).
Proof. exact @bp_untracked_root. Qed.
Print Assumptions backprop_from_untracked_root_changes_nothing.

Theorem visiting_order_is_exactly_the_tracked_ancestry :
  forall (A : Type) (h : @heap A) (root : nat),
  @wf_heap A h ->
  @NoDup nat (@topoOrder A h root) /\
  @ordered A h (@topoOrder A h root) /\
  (forall x : nat, @In nat x (@topoOrder A h root) <-> @treach A h root x).
Proof. exact @topoOrder_spec. Qed.
Print Assumptions visiting_order_is_exactly_the_tracked_ancestry.

Theorem backprop_marks_exactly_the_tracked_ancestry :
  forall (A : Type) (SA : Scalar A) (rd : bred) (sealg : option nat -> tensor A -> tensor A) 
    (h : heap) (root : nat) (h' : heap) (log : list (nat * tensor A)) (r : res unit),
  wf_heap h ->
  trackedOf h root = true ->
  bp_topo rd sealg h root = (h', log, r) ->
  length h' = length h /\
  (forall (i : nat) (n : node),
   nth_error h i = Some n ->
   exists n' : node,
     nth_error h' i = Some n' /\
     nval n' = nval n /\
     ntracked n' = ntracked n /\
     nedges n' = nedges n /\
     nname n' = nname n /\
     ndirty n' = ndirty n || memb i (topoOrder h root) /\
     (~ In i (topoOrder h root) -> ngrad n' = ngrad n)) /\
  (r = Ok tt -> forall i : nat, In i (topoOrder h root) -> gradOf h' i <> None).
Proof. exact @bp_topo_flags. Qed.
Print Assumptions backprop_marks_exactly_the_tracked_ancestry.

Theorem spent_tensors_are_isolated :
  forall (A : Type) (SA : Scalar A) (rd : bred) (sealg : option nat -> tensor A -> tensor A) 
    (h : heap) (root : nat) (hb : heap) (log : list (nat * tensor A)) (r : res unit) 
    (x : nat),
  wf_heap h ->
  bp_topo rd sealg h root = (hb, log, r) ->
  In x (topoOrder h root) ->
  dirtyOf hb x = true /\
  (forall (f : tensor A -> res (tensor A)) (mk : nat -> rule) (name : option nat) (h' : heap) (id : nat),
   h_op1 hb x f mk name = (h', Ok id) -> isolated h' id) /\
  (forall (b : binary) (u : nat) (name : option nat) (h' : heap) (id : nat),
   h_elsel hb b x u name = (h', Ok id) -> isolated h' id) /\
  (forall (b : binary) (u : nat) (name : option nat) (h' : heap) (id : nat),
   h_elsel hb b u x name = (h', Ok id) -> isolated h' id) /\
  (forall (b : binary) (u : nat) (name : option nat) (h' : heap) (id : nat),
   h_arith hb b x u name = (h', Ok id) -> isolated h' id) /\
  (forall (b : binary) (u : nat) (name : option nat) (h' : heap) (id : nat),
   h_arith hb b u x name = (h', Ok id) -> isolated h' id) /\
  (forall (u : nat) (name : option nat) (h' : heap) (id : nat),
   h_dot hb x u name = (h', Ok id) -> isolated h' id) /\
  (forall (u : nat) (name : option nat) (h' : heap) (id : nat),
   h_dot hb u x name = (h', Ok id) -> isolated h' id) /\
  (forall (u : nat) (name : option nat) (h' : heap) (id : nat),
   h_matmul hb x u name = (h', Ok id) -> isolated h' id) /\
  (forall (u : nat) (name : option nat) (h' : heap) (id : nat),
   h_matmul hb u x name = (h', Ok id) -> isolated h' id) /\
  (forall (index : list zrange) (p : nat) (name : option nat) (h' : heap) (id : nat),
   h_patch hb x index p name = (h', Ok id) -> isolated h' id) /\
  (forall (index : list zrange) (u : nat) (name : option nat) (h' : heap) (id : nat),
   h_patch hb u index x name = (h', Ok id) -> isolated h' id) /\
  (forall (xs : list nat) (dim : Z) (name : option nat) (h' : heap) (id : nat),
   In x xs -> h_concat hb xs dim name = (h', Ok id) -> isolated h' id).
Proof. exact @spent_isolated. Qed.
Print Assumptions spent_tensors_are_isolated.

Theorem edges_point_to_older_tensors_is_preserved_by_backprop :
  forall (A : Type) (SA : Scalar A) (rd : bred) (sealg : option nat -> tensor A -> tensor A) 
    (h : heap) (root : nat), wf_heap h -> wf_heap (fst (fst (bp_topo rd sealg h root))).
Proof. exact @bp_topo_wf. Qed.
Print Assumptions edges_point_to_older_tensors_is_preserved_by_backprop.
