(* C06G — source tie BY TRANSLATION for the integer / shape logic behind indexing, reshaping and construction (completeIndex, linearElemGenerator, broadcastElemGenerator, eyeElemGenerator, unsqueeze/squeeze/flattenDims, getConcatDims, numElems, their validators).
   Statements only (proofs: Proofs/Go*P.v).  Model/GoFns.v is REGENERATED from /repo's Go sources on every run by
   harness/gox: each function below is a program of the small imperative language of Model/GoIR.v (Go int = Z
   without overflow, slices with value semantics — the translator refuses functions that write through aliases).
   Each theorem says that RUNNING the translated program (big-step semantics [exec] / [run], any fuel above the
   stated bound, hence no non-termination) returns exactly the value of the hand-written model function
   (Model/Valid.v, Model/Data.v, Model/Fill.v) for ALL arguments — for validators with no hypothesis at all, which
   also says they never panic; for shape helpers under the validator's precondition; for element generators: one
   call of the closure moves the multi-index state exactly like the model's odometer ([incr], [incr_skip], [bstep]),
   and the statements outside the integer fragment are pinned as text in source order ([itemShape]).
   The DATA layer (functions over `any`: float64 leaves and []any rows, recursive closures with pointer
   parameters) is translated into DataIR programs (Model/DataIR.v, Model/GoData.v, regenerated every run); the
   [data_*] / [drun_*] theorems say that running them returns exactly the model's nested data (Model/Data.v,
   Model/Fill.v) and panics exactly where the model says None.
   The thin WRAPPERS of cputensor (shape helper + element generator + initWith: transpose, reshape, broadcast, slice,
   patch, dot, matMul, reduceDimUsingFunc, constTensor, eyeMatrix) and the five cases of initTensorFromData are
   translated too (Model/GoWrap.v); their calls of the functions above go through the oracle Model/DataExt.v, which
   maps each callee to the model function the theorems above prove it to be; the [*_wrapper_*] theorems say the
   wrapper returns the model tensor (and panics where the model says None) and [initTensorFromData_*] that every case
   returns (shapeOf x, x) on data accepted by the validator.
   An edit of one of these Go functions changes GoFns.v / GoData.v and breaks the theorem unless it computes the same thing.
   Closed under the global context. *)
From Coq Require Import String List ZArith Bool Arith.
From Qeep Require Import Model.Scalar Model.Nd Model.Fill Model.Valid Model.GoIR Model.DataIR.
From Qeep Require Model.Data Model.Api Model.GoFns Model.GoData Model.DataExt Model.GoWrap.
From Qeep Require Import Proofs.GoIRP.
From Qeep Require Proofs.GoValidAtP Proofs.GoValidP1 Proofs.GoValidP2 Proofs.GoValidP3 Proofs.GoDimsP1 Proofs.GoDimsP2 Proofs.GoGenP1 Proofs.GoGenP2 Proofs.GoGenP3 Proofs.GoMatMulShapeP Proofs.DataAtP Proofs.DataSliceP Proofs.DataPatchP Proofs.DataApplyP Proofs.DataReduceP Proofs.DataFillP Proofs.DataLinalgP Proofs.DataConcatP Proofs.DataWrapP Proofs.DataFromDataP.
Import ListNotations.
Local Open Scope string_scope.

Theorem ValidateAtIndexAgainstDims_program_is_the_model_validator :
  forall (call : string -> list val -> outcome) (fuel : nat) (index dims : list Z),
  exec call fuel (fbody GoFns.ValidateAtIndexAgainstDims) [("index", ints index); ("dims", ints dims)] =
  ORet [errOf (validateAtIndexAgainstDims index dims)].
Proof. exact @GoValidAtP.go_ValidateAtIndexAgainstDims. Qed.
Print Assumptions ValidateAtIndexAgainstDims_program_is_the_model_validator.

Theorem ValidateAtIndexAgainstDims_run :
  forall (fuel : nat) (index dims : list Z),
  run GoFns.ftab fuel GoFns.ValidateAtIndexAgainstDims [ints index; ints dims] =
  ORet [errOf (validateAtIndexAgainstDims index dims)].
Proof. exact @GoValidAtP.run_ValidateAtIndexAgainstDims. Qed.
Print Assumptions ValidateAtIndexAgainstDims_run.

Theorem ValidateSliceIndexAgainstDims_program_is_the_model_validator :
  forall (call : string -> list val -> outcome) (fuel : nat) (index : list (Z * Z)) (dims : list Z),
  exec call fuel (fbody GoFns.ValidateSliceIndexAgainstDims)
    [("index", ranges index); ("dims", ints dims)] =
  ORet [errOf (validateSliceIndexAgainstDims index dims)].
Proof. exact @GoValidP1.go_ValidateSliceIndexAgainstDims. Qed.
Print Assumptions ValidateSliceIndexAgainstDims_program_is_the_model_validator.

Theorem ValidateSliceIndexAgainstDims_run :
  forall (fuel : nat) (index : list (Z * Z)) (dims : list Z),
  run GoFns.ftab fuel GoFns.ValidateSliceIndexAgainstDims [ranges index; ints dims] =
  ORet [errOf (validateSliceIndexAgainstDims index dims)].
Proof. exact @GoValidP1.run_ValidateSliceIndexAgainstDims. Qed.
Print Assumptions ValidateSliceIndexAgainstDims_run.

Theorem ValidatePatchIndexAgainstDims_program_is_the_model_validator :
  forall (fuel d : nat) (index : list (Z * Z)) (src dst : list Z),
  S (Datatypes.length src) <= fuel ->
  exec (callD GoFns.ftab fuel (S d)) fuel (fbody GoFns.ValidatePatchIndexAgainstDims)
    [("index", ranges index); ("srcDims", ints src); ("dstDims", ints dst)] =
  ORet [errOf (validatePatchIndexAgainstDims index src dst)].
Proof. exact @GoValidP1.go_ValidatePatchIndexAgainstDims. Qed.
Print Assumptions ValidatePatchIndexAgainstDims_program_is_the_model_validator.

Theorem ValidatePatchIndexAgainstDims_run :
  forall (fuel : nat) (index : list (Z * Z)) (src dst : list Z),
  S (Datatypes.length src) <= fuel ->
  run GoFns.ftab fuel GoFns.ValidatePatchIndexAgainstDims [ranges index; ints src; ints dst] =
  ORet [errOf (validatePatchIndexAgainstDims index src dst)].
Proof. exact @GoValidP1.run_ValidatePatchIndexAgainstDims. Qed.
Print Assumptions ValidatePatchIndexAgainstDims_run.

Theorem ValidateInputDims_program_is_the_model_validator :
  forall (call : string -> list val -> outcome) (fuel : nat) (dims : list Z),
  exec call fuel (fbody GoFns.ValidateInputDims) [("dims", ints dims)] =
  ORet [errOf (validateInputDims dims)].
Proof. exact @GoValidP1.go_ValidateInputDims. Qed.
Print Assumptions ValidateInputDims_program_is_the_model_validator.

Theorem ValidateInputDims_run :
  forall (fuel : nat) (dims : list Z),
  run GoFns.ftab fuel GoFns.ValidateInputDims [ints dims] = ORet [errOf (validateInputDims dims)].
Proof. exact @GoValidP1.run_ValidateInputDims. Qed.
Print Assumptions ValidateInputDims_run.

Theorem ValidateReshapeSourceDimsAgainstTargetDims_program_is_the_model_validator :
  forall (fuel d : nat) (src dst : list Z),
  exec (callD GoFns.ftab fuel (S d)) fuel (fbody GoFns.ValidateReshapeSourceDimsAgainstTargetDims)
    [("srcDims", ints src); ("dstDims", ints dst)] = ORet [errOf (validateReshape src dst)].
Proof. exact @GoValidP3.go_ValidateReshapeSourceDimsAgainstTargetDims. Qed.
Print Assumptions ValidateReshapeSourceDimsAgainstTargetDims_program_is_the_model_validator.

Theorem ValidateReshapeSourceDimsAgainstTargetDims_run :
  forall (fuel : nat) (src dst : list Z),
  1 <= fuel ->
  run GoFns.ftab fuel GoFns.ValidateReshapeSourceDimsAgainstTargetDims [ints src; ints dst] =
  ORet [errOf (validateReshape src dst)].
Proof. exact @GoValidP3.run_ValidateReshapeSourceDimsAgainstTargetDims. Qed.
Print Assumptions ValidateReshapeSourceDimsAgainstTargetDims_run.

Theorem ValidateUnSqueezeDimAgainstDims_program_is_the_model_validator :
  forall (call : string -> list val -> outcome) (fuel : nat) (dim : Z) (dims : list Z),
  exec call fuel (fbody GoFns.ValidateUnSqueezeDimAgainstDims) [("dim", VI dim); ("dims", ints dims)] =
  ORet [errOf (validateUnSqueezeDim dim dims)].
Proof. exact @GoValidP3.go_ValidateUnSqueezeDimAgainstDims. Qed.
Print Assumptions ValidateUnSqueezeDimAgainstDims_program_is_the_model_validator.

Theorem ValidateUnSqueezeDimAgainstDims_run :
  forall (fuel : nat) (dim : Z) (dims : list Z),
  run GoFns.ftab fuel GoFns.ValidateUnSqueezeDimAgainstDims [VI dim; ints dims] =
  ORet [errOf (validateUnSqueezeDim dim dims)].
Proof. exact @GoValidP3.run_ValidateUnSqueezeDimAgainstDims. Qed.
Print Assumptions ValidateUnSqueezeDimAgainstDims_run.

Theorem ValidateSqueezeDimAgainstDims_program_is_the_model_validator :
  forall (call : string -> list val -> outcome) (fuel : nat) (dim : Z) (dims : list Z),
  exec call fuel (fbody GoFns.ValidateSqueezeDimAgainstDims) [("dim", VI dim); ("dims", ints dims)] =
  ORet [errOf (validateSqueezeDim dim dims)].
Proof. exact @GoValidP3.go_ValidateSqueezeDimAgainstDims. Qed.
Print Assumptions ValidateSqueezeDimAgainstDims_program_is_the_model_validator.

Theorem ValidateSqueezeDimAgainstDims_run :
  forall (fuel : nat) (dim : Z) (dims : list Z),
  run GoFns.ftab fuel GoFns.ValidateSqueezeDimAgainstDims [VI dim; ints dims] =
  ORet [errOf (validateSqueezeDim dim dims)].
Proof. exact @GoValidP3.run_ValidateSqueezeDimAgainstDims. Qed.
Print Assumptions ValidateSqueezeDimAgainstDims_run.

Theorem ValidateFlattenDimAgainstDims_program_is_the_model_validator :
  forall (call : string -> list val -> outcome) (fuel : nat) (dim : Z) (dims : list Z),
  exec call fuel (fbody GoFns.ValidateFlattenDimAgainstDims) [("dim", VI dim); ("dims", ints dims)] =
  ORet [errOf (validateFlattenDim dim dims)].
Proof. exact @GoValidP3.go_ValidateFlattenDimAgainstDims. Qed.
Print Assumptions ValidateFlattenDimAgainstDims_program_is_the_model_validator.

Theorem ValidateFlattenDimAgainstDims_run :
  forall (fuel : nat) (dim : Z) (dims : list Z),
  run GoFns.ftab fuel GoFns.ValidateFlattenDimAgainstDims [VI dim; ints dims] =
  ORet [errOf (validateFlattenDim dim dims)].
Proof. exact @GoValidP3.run_ValidateFlattenDimAgainstDims. Qed.
Print Assumptions ValidateFlattenDimAgainstDims_run.

Theorem ValidateBroadcastSourceDimsAgainstTargetDims_program_is_the_model_validator :
  forall (call : string -> list val -> outcome) (fuel : nat) (src dst : list Z),
  S (Datatypes.length src) <= fuel ->
  exec call fuel (fbody GoFns.ValidateBroadcastSourceDimsAgainstTargetDims)
    [("srcDims", ints src); ("dstDims", ints dst)] = ORet [errOf (validateBroadcast src dst)].
Proof. exact @GoValidP3.go_ValidateBroadcastSourceDimsAgainstTargetDims. Qed.
Print Assumptions ValidateBroadcastSourceDimsAgainstTargetDims_program_is_the_model_validator.

Theorem ValidateBroadcastSourceDimsAgainstTargetDims_run :
  forall (fuel : nat) (src dst : list Z),
  S (Datatypes.length src) <= fuel ->
  run GoFns.ftab fuel GoFns.ValidateBroadcastSourceDimsAgainstTargetDims [ints src; ints dst] =
  ORet [errOf (validateBroadcast src dst)].
Proof. exact @GoValidP3.run_ValidateBroadcastSourceDimsAgainstTargetDims. Qed.
Print Assumptions ValidateBroadcastSourceDimsAgainstTargetDims_run.

Theorem ValidateConcatTensorsDimsAlongDim_program_is_the_model_validator :
  forall (call : string -> list val -> outcome) (fuel : nat) (tsDims : list (list Z)) (dim : Z),
  exec call fuel (fbody GoFns.ValidateConcatTensorsDimsAlongDim)
    [("tsDims", intss tsDims); ("dim", VI dim)] =
  match validateConcatTensorsDimsAlongDim tsDims dim with
  | Some b => ORet [errOf b]
  | None => OPanic
  end.
Proof. exact @GoValidP2.go_ValidateConcatTensorsDimsAlongDim_total. Qed.
Print Assumptions ValidateConcatTensorsDimsAlongDim_program_is_the_model_validator.

Theorem numElems_program_is_the_model_function :
  forall (call : string -> list val -> outcome) (fuel : nat) (ds : list nat),
  exec call fuel (fbody GoFns.numElems) [("t.dims", nats ds)] = ORet [VI (Z.of_nat (prodn ds))].
Proof. exact @GoDimsP1.go_numElems. Qed.
Print Assumptions numElems_program_is_the_model_function.

Theorem unsqueezeDims_program_is_the_model_function :
  forall (call : string -> list val -> outcome) (fuel dim : nat) (ds : list nat),
  dim <= Datatypes.length ds ->
  exec call fuel (fbody GoFns.unsqueezeDims) [("dim", VI (Z.of_nat dim)); ("dims", nats ds)] =
  ORet [nats (Data.unsqueezeDims dim ds)].
Proof. exact @GoDimsP1.go_unsqueezeDims. Qed.
Print Assumptions unsqueezeDims_program_is_the_model_function.

Theorem squeezeDims_program_is_the_model_function :
  forall (call : string -> list val -> outcome) (fuel dim : nat) (ds : list nat),
  dim < Datatypes.length ds ->
  exec call fuel (fbody GoFns.squeezeDims) [("dim", VI (Z.of_nat dim)); ("dims", nats ds)] =
  ORet [nats (Data.squeezeDims dim ds)].
Proof. exact @GoDimsP1.go_squeezeDims. Qed.
Print Assumptions squeezeDims_program_is_the_model_function.

Theorem flattenDims_program_is_the_model_function :
  forall (call : string -> list val -> outcome) (fuel dim : nat) (ds : list nat),
  dim < Datatypes.length ds ->
  S (Datatypes.length ds) <= fuel ->
  exec call fuel (fbody GoFns.flattenDims) [("dim", VI (Z.of_nat dim)); ("dims", nats ds)] =
  ORet [nats (Data.flattenDims dim ds)].
Proof. exact @GoDimsP1.go_flattenDims. Qed.
Print Assumptions flattenDims_program_is_the_model_function.

Theorem transposeDims_program_is_the_model_function :
  forall (call : string -> list val -> outcome) (fuel : nat) (ds : list nat),
  2 <= Datatypes.length ds ->
  exec call fuel (fbody GoFns.transposeDims) [("dims", nats ds)] = ORet [nats (Data.transposeDims ds)].
Proof. exact @GoDimsP1.go_transposeDims. Qed.
Print Assumptions transposeDims_program_is_the_model_function.

Theorem completeIndex_program_is_the_model_function :
  forall (call : string -> list val -> outcome) (fuel : nat) (index : list (nat * nat)) (ds : list nat),
  exec call fuel (fbody GoFns.completeIndex)
    [("index", VL (map (fun r : nat * nat => VR (Z.of_nat (fst r)) (Z.of_nat (snd r))) index));
     ("dims", nats ds)] =
  ORet
    [VL
       (map (fun r : nat * nat => VR (Z.of_nat (fst r)) (Z.of_nat (snd r)))
          (Data.completeIndex index ds))].
Proof. exact @GoDimsP2.go_completeIndex. Qed.
Print Assumptions completeIndex_program_is_the_model_function.

Theorem getConcatDims_program_is_the_model_function :
  forall (call : string -> list val -> outcome) (fuel : nat) (dss : list (list nat)) (dim : nat),
  exec call fuel (fbody GoFns.getConcatDims) [("ts", VL (map nats dss)); ("dim", VI (Z.of_nat dim))] =
  match GoDimsP2.concatDimsOf dss dim with
  | Some r => ORet [nats r]
  | None => OPanic
  end.
Proof. exact @GoDimsP2.go_getConcatDims_gen. Qed.
Print Assumptions getConcatDims_program_is_the_model_function.

Theorem getConcatDims_model_on_tensors :
  forall (A : Type) (ts : list (tensor A)) (dim : nat),
  Data.getConcatDims ts dim = GoDimsP2.concatDimsOf (map (dims (A:=A)) ts) dim.
Proof. exact @GoDimsP2.getConcatDims_dims. Qed.
Print Assumptions getConcatDims_model_on_tensors.

Theorem linearElemGenerator_outer_shape :
  itemShape GoFns.linearElemGenerator_outer = [None; Some "return <closure>"].
Proof. exact @GoGenP1.shape_linearElemGenerator_outer. Qed.
Print Assumptions linearElemGenerator_outer_shape.

Theorem linearElemGenerator_step_shape :
  itemShape GoFns.linearElemGenerator_step = [Some "elem := t.dataAt(state)"; None; Some "return elem"].
Proof. exact @GoGenP1.shape_linearElemGenerator_step. Qed.
Print Assumptions linearElemGenerator_step_shape.

Theorem linearElemGenerator_code :
  codeOf GoFns.linearElemGenerator_outer = [GoGenP1.linearElemGenerator_outer_code] /\
  codeOf GoFns.linearElemGenerator_step = [GoGenP1.linearElemGenerator_step_code].
Proof. exact @GoGenP1.codeOf_linearElemGenerator. Qed.
Print Assumptions linearElemGenerator_code.

Theorem linearElemGenerator_initial_state_is_linInit :
  forall (call : string -> list val -> outcome) (fuel : nat) (ds : list nat) (e : env),
  lookup e "t.dims" = Some (nats ds) ->
  exists e' : env,
    exec call fuel GoGenP1.linearElemGenerator_outer_code e = ONormal e' /\
    lookup e' "state" = Some (nats (linInit ds)) /\
    (forall y : string, y <> "state" -> lookup e' y = lookup e y).
Proof. exact @GoGenP1.go_linearElemGenerator_outer. Qed.
Print Assumptions linearElemGenerator_initial_state_is_linInit.

Theorem linearElemGenerator_step_is_incr :
  forall (call : string -> list val -> outcome) (fuel : nat) (ds gs : list nat) (e : env),
  S (Datatypes.length ds) <= fuel ->
  Datatypes.length gs = Datatypes.length ds ->
  lookup e "t.dims" = Some (nats ds) ->
  lookup e "state" = Some (nats gs) ->
  exists e' : env,
    exec call fuel GoGenP1.linearElemGenerator_step_code e = ONormal e' /\
    lookup e' "state" = Some (nats (rev (incr (rev ds) (rev gs)))) /\
    lookup e' "t.dims" = Some (nats ds) /\
    (forall y : string, y <> "state" -> y <> "i" -> lookup e' y = lookup e y).
Proof. exact @GoGenP1.go_linearElemGenerator_step. Qed.
Print Assumptions linearElemGenerator_step_is_incr.

Theorem broadcastElemGenerator_outer_shape :
  itemShape GoFns.broadcastElemGenerator_outer = [None; Some "return <closure>"].
Proof. exact @GoGenP3.shape_broadcastElemGenerator_outer. Qed.
Print Assumptions broadcastElemGenerator_outer_shape.

Theorem broadcastElemGenerator_step_shape :
  itemShape GoFns.broadcastElemGenerator_step =
  [Some "elem := t.dataAt(state)"; None; Some "return elem"].
Proof. exact @GoGenP3.shape_broadcastElemGenerator_step. Qed.
Print Assumptions broadcastElemGenerator_step_shape.

Theorem broadcastElemGenerator_code :
  codeOf GoFns.broadcastElemGenerator_step = [GoGenP3.broadcastElemGenerator_step_code].
Proof. exact @GoGenP3.codeOf_broadcastElemGenerator_step. Qed.
Print Assumptions broadcastElemGenerator_code.

Theorem broadcastElemGenerator_initial_state_is_bcInit :
  forall (call : string -> list val -> outcome) (fuel : nat) (src shape : list nat) (e : env),
  Datatypes.length src <= Datatypes.length shape ->
  lookup e "t.dims" = Some (nats src) ->
  lookup e "shape" = Some (nats shape) ->
  exists e' : env,
    exec call fuel GoGenP3.broadcastElemGenerator_outer_code e = ONormal e' /\
    GoGenP3.bRep src shape (bcInit src shape) e' /\
    GoGenP3.bwf src shape (bcInit src shape) /\
    (forall y : string, y <> "state" -> y <> "repeat" -> lookup e' y = lookup e y).
Proof. exact @GoGenP3.go_broadcastElemGenerator_outer_bcInit. Qed.
Print Assumptions broadcastElemGenerator_initial_state_is_bcInit.

Theorem broadcastElemGenerator_step_is_bstep :
  forall (call : string -> list val -> outcome) (fuel : nat) (src shape : list nat) 
    (ps : list bpos) (e : env),
  S (S (Datatypes.length shape)) <= fuel ->
  GoGenP3.bwf src shape ps ->
  GoGenP3.bRep src shape ps e ->
  exists e' : env,
    exec call fuel GoGenP3.broadcastElemGenerator_step_code e = ONormal e' /\
    GoGenP3.bRep src shape (bstep ps) e' /\ GoGenP3.bwf src shape (bstep ps) /\ GoGenP3.bframe e e'.
Proof. exact @GoGenP3.go_broadcastElemGenerator_step. Qed.
Print Assumptions broadcastElemGenerator_step_is_bstep.

Theorem eyeElemGenerator_outer_shape :
  itemShape GoFns.eyeElemGenerator_outer = [None; Some "return <closure>"].
Proof. exact @GoGenP1.shape_eyeElemGenerator_outer. Qed.
Print Assumptions eyeElemGenerator_outer_shape.

Theorem eyeElemGenerator_step_shape :
  itemShape GoFns.eyeElemGenerator_step = [None; Some "if atDiag { return 1. } else { return 0. }"].
Proof. exact @GoGenP1.shape_eyeElemGenerator_step. Qed.
Print Assumptions eyeElemGenerator_step_shape.

Theorem eyeElemGenerator_code :
  codeOf GoFns.eyeElemGenerator_outer = [GoGenP1.eyeElemGenerator_outer_code] /\
  codeOf GoFns.eyeElemGenerator_step = [GoGenP1.eyeElemGenerator_step_code].
Proof. exact @GoGenP1.codeOf_eyeElemGenerator. Qed.
Print Assumptions eyeElemGenerator_code.

Theorem eyeElemGenerator_initial_state :
  forall (call : string -> list val -> outcome) (fuel : nat) (e : env),
  exists e' : env,
    exec call fuel GoGenP1.eyeElemGenerator_outer_code e = ONormal e' /\
    lookup e' "state" = Some (VI (Z.of_nat 0)) /\
    (forall y : string, y <> "state" -> lookup e' y = lookup e y).
Proof. exact @GoGenP1.go_eyeElemGenerator_outer. Qed.
Print Assumptions eyeElemGenerator_initial_state.

Theorem eyeElemGenerator_step_is_eyeGen :
  forall (call : string -> list val -> outcome) (fuel n s : nat) (e : env),
  lookup e "n" = Some (VI (Z.of_nat n)) ->
  lookup e "state" = Some (VI (Z.of_nat s)) ->
  exists e' : env,
    exec call fuel GoGenP1.eyeElemGenerator_step_code e = ONormal e' /\
    lookup e' "state" = Some (VI (Z.of_nat (S s))) /\
    lookup e' "atDiag" = Some (VB (s mod (n + 1) =? 0)%nat) /\
    (forall y : string, y <> "state" -> y <> "atDiag" -> lookup e' y = lookup e y).
Proof. exact @GoGenP1.go_eyeElemGenerator_step_env. Qed.
Print Assumptions eyeElemGenerator_step_is_eyeGen.

Theorem dataAt_program_is_dataAt :
  forall (A : Type) (SA : Scalar A) (fapp : string -> list A -> option A) (St : Type)
    (ext : string -> list dval -> St -> option (list dval * St))
    (callL : string -> list dval -> St -> denv -> cres St) (fuel : nat) (ds : dval) 
    (x : nd A) (idx : list nat) (s : St),
  match dataAt x idx with
  | Some y =>
      exists g l : denv,
        dexec fapp St ext callL fuel true (dbody (pmain GoData.d_dataAt)) s
          [("t.dims", ds); ("t.data", emb x); ("index", dnats idx)] [] = DRet St [emb y] s g l
  | None =>
      dexec fapp St ext callL fuel true (dbody (pmain GoData.d_dataAt)) s
        [("t.dims", ds); ("t.data", emb x); ("index", dnats idx)] [] = DPanic St
  end.
Proof. exact @DataAtP.data_dataAt. Qed.
Print Assumptions dataAt_program_is_dataAt.

Theorem copiedSliceOf_program_is_copiedSliceOf :
  forall (A : Type) (SA : Scalar A) (fapp : string -> list A -> option A) (St : Type)
    (ext : string -> list dval -> St -> option (list dval * St)) (fuel depth : nat) 
    (ds : list nat) (x : nd A) (index : list (nat * nat)) (s : St),
  Forall (fun r : nat * nat => fst r <= snd r) index ->
  Datatypes.length index < depth ->
  match Data.copiedSliceOf {| dims := ds; data := x |} index with
  | Some o =>
      exists g l : denv,
        drun fapp St ext GoData.d_copiedSliceOf fuel depth [dnats ds; emb x; dranges index] s =
        DRet St [dnats (dims o); emb (data o)] s g l
  | None =>
      drun fapp St ext GoData.d_copiedSliceOf fuel depth [dnats ds; emb x; dranges index] s = DPanic St
  end.
Proof. exact @DataSliceP.data_copiedSliceOf. Qed.
Print Assumptions copiedSliceOf_program_is_copiedSliceOf.

Theorem copyData_slice_closure :
  forall (A : Type) (SA : Scalar A) (fapp : string -> list A -> option A) (St : Type)
    (ext : string -> list dval -> St -> option (list dval * St)) (fuel : nat) 
    (index : list (nat * nat)),
  Forall (fun r : nat * nat => fst r <= snd r) index ->
  forall (d : nat) (src : nd A) (v : dval) (s : St) (g : denv),
  Datatypes.length index <= d ->
  callLD fapp St ext (plocals GoData.d_copiedSliceOf) fuel (S d) "copyData" [
    dranges index; emb src; v] s g =
  match Data.sliceData index src with
  | Some r => CRet St [emb src; emb r] s g
  | None => CPanic St
  end.
Proof. exact @DataSliceP.copyData_sliceData. Qed.
Print Assumptions copyData_slice_closure.

Theorem copiedWithPatchOf_program_is_patch_body :
  forall (A : Type) (SA : Scalar A) (fapp : string -> list A -> option A) (St : Type)
    (ext : string -> list dval -> St -> option (list dval * St)) (t u : tensor A)
    (cidx : list (nat * nat)) (fuel depth : nat) (s : St),
  ext "slice" [dnats (dims t); emb (data t); DL []] s =
  match Data.slice t [] with
  | Some o => Some ([dnats (dims o); emb (data o)], s)
  | None => None
  end ->
  Datatypes.length cidx < depth ->
  match
    (do o <- Data.slice t [];
     do d <- Data.patchData cidx (data u) (data o); Some {| dims := dims o; data := d |})
  with
  | Some o' =>
      exists g l : denv,
        drun fapp St ext GoData.d_copiedWithPatchOf fuel depth
          [dnats (dims t); emb (data t); dranges cidx; dnats (dims u); emb (data u)] s =
        DRet St [dnats (dims o'); emb (data o')] s g l
  | None =>
      drun fapp St ext GoData.d_copiedWithPatchOf fuel depth
        [dnats (dims t); emb (data t); dranges cidx; dnats (dims u); emb (data u)] s = 
      DPanic St
  end.
Proof. exact @DataPatchP.data_copiedWithPatchOf. Qed.
Print Assumptions copiedWithPatchOf_program_is_patch_body.

Theorem patch_program_is_patch :
  forall (A : Type) (SA : Scalar A) (fapp : string -> list A -> option A) (St : Type)
    (ext : string -> list dval -> St -> option (list dval * St)) (t u : tensor A)
    (index : list (nat * nat)) (fuel depth : nat) (s : St),
  ext "slice" [dnats (dims t); emb (data t); DL []] s =
  match Data.slice t [] with
  | Some o => Some ([dnats (dims o); emb (data o)], s)
  | None => None
  end ->
  Datatypes.length (dims u) < depth ->
  match Data.patch t index u with
  | Some o' =>
      exists g l : denv,
        drun fapp St ext GoData.d_copiedWithPatchOf fuel depth
          [dnats (dims t); emb (data t); dranges (Data.completeIndex index (dims u)); 
           dnats (dims u); emb (data u)] s = DRet St [dnats (dims o'); emb (data o')] s g l
  | None =>
      drun fapp St ext GoData.d_copiedWithPatchOf fuel depth
        [dnats (dims t); emb (data t); dranges (Data.completeIndex index (dims u)); 
         dnats (dims u); emb (data u)] s = DPanic St
  end.
Proof. exact @DataPatchP.data_patch. Qed.
Print Assumptions patch_program_is_patch.

Theorem copyData_patch_closure :
  forall (A : Type) (SA : Scalar A) (fapp : string -> list A -> option A) (St : Type)
    (ext : string -> list dval -> St -> option (list dval * St)) (index : list (nat * nat))
    (src dst : nd A) (d fuel : nat) (s : St) (g : denv),
  Datatypes.length index <= d ->
  callLD fapp St ext (plocals GoData.d_copiedWithPatchOf) fuel (S d) "copyData"
    [dranges index; emb src; emb dst] s g =
  match Data.patchData index src dst with
  | Some r => CRet St [emb src; emb r] s g
  | None => CPanic St
  end.
Proof. exact @DataPatchP.copyData_patchData. Qed.
Print Assumptions copyData_patch_closure.

Theorem initWith_program_is_fill :
  forall (A : Type) (SA : Scalar A) (fapp : string -> list A -> option A) (G : Type)
    (gen : G -> option (nd A * G)) (ext : string -> list dval -> G -> option (list dval * G)),
  (forall s : G,
   ext "initFunc" [] s = match gen s with
                         | Some (e, s') => Some ([emb e], s')
                         | None => None
                         end) ->
  forall (fuel depth : nat) (ds : list nat) (v0 : dval) (s : G),
  Datatypes.length ds < depth ->
  drun fapp G ext GoData.d_initWith fuel depth [dnats ds; v0] s =
  match fill ds gen s with
  | Some (r, s') => DNormal G s' [("t.dims", dnats ds); ("t.data", emb r)] []
  | None => DPanic G
  end.
Proof. exact @DataFillP.data_initWith_run. Qed.
Print Assumptions initWith_program_is_fill.

Theorem fill_closure :
  forall (A : Type) (SA : Scalar A) (fapp : string -> list A -> option A) (G : Type)
    (gen : G -> option (nd A * G)) (ext : string -> list dval -> G -> option (list dval * G)),
  (forall s : G,
   ext "initFunc" [] s = match gen s with
                         | Some (e, s') => Some ([emb e], s')
                         | None => None
                         end) ->
  forall (ds : list nat) (d fuel : nat) (v : dval) (s : G) (g : denv),
  Datatypes.length ds <= d ->
  callLD fapp G ext (plocals GoData.d_initWith) fuel (S d) "fill" [dnats ds; v] s g =
  match fill ds gen s with
  | Some (x, s') => CRet G [emb x] s' g
  | None => CPanic G
  end.
Proof. exact @DataFillP.fill_closure. Qed.
Print Assumptions fill_closure.

Theorem initConcatResultTensor_program_is_concatD :
  forall (A : Type) (SA : Scalar A) (fapp : string -> list A -> option A) (St : Type)
    (ext : string -> list dval -> St -> option (list dval * St)) (dim : nat),
  (forall (t c : tensor A) (s : St),
   Data.slice t [] = Some c ->
   ext "slice" [DataConcatP.etensor t; DL []] s = Some ([DataConcatP.etensor c], s)) ->
  (forall (ts : list (tensor A)) (dm : nat) (r : list nat) (s : St),
   Data.getConcatDims ts dm = Some r ->
   ext "getConcatDims" [DataConcatP.etensors ts; DI (Z.of_nat dm)] s = Some ([dnats r], s)) ->
  forall (ts : list (tensor A)) (ds : list nat) (r : nd A) (fuel depth : nat) (s : St),
  dim < depth ->
  Data.concatD ts dim = Some {| dims := ds; data := r |} ->
  exists g l : denv,
    drun fapp St ext GoData.d_initConcatResultTensor fuel depth
      [DataConcatP.etensors ts; DI (Z.of_nat dim)] s = DRet St [dnats ds; emb r] s g l.
Proof. exact @DataConcatP.drun_initConcatResultTensor. Qed.
Print Assumptions initConcatResultTensor_program_is_concatD.

Theorem fillCat_closure :
  forall (A : Type) (SA : Scalar A) (fapp : string -> list A -> option A) (St : Type)
    (ext : string -> list dval -> St -> option (list dval * St)) (dim k : nat) 
    (ds : list nat) (seeds : list (nd A)) (r : nd A) (depth0 : nat) (dv : dval) 
    (d fuel : nat) (s : St) (g : denv),
  depth0 + k = dim ->
  k < Datatypes.length ds ->
  k <= d ->
  dlookup g "dim" = Some (DI (Z.of_nat dim)) ->
  Data.fillCat k ds seeds = Some r ->
  callLD fapp St ext (plocals GoData.d_initConcatResultTensor) fuel (S d) "fillCat"
    [dnats ds; dv; DL (map emb seeds); DI (Z.of_nat depth0)] s g = CRet St [emb r] s g.
Proof. exact @DataConcatP.fillCat_call. Qed.
Print Assumptions fillCat_closure.

Theorem slice_wrapper_is_slice :
  forall (A : Type) (SA : Scalar A) (fapp : string -> list A -> option A) (red : Data.reducer)
    (fuel depth : nat) (ds : list nat) (x : nd A) (index : list (nat * nat)),
  Forall (fun r : nat * nat => fst r <= snd r) (Data.completeIndex index ds) ->
  DataWrapP.returns
    (drun fapp unit (DataExt.dext red) GoWrap.w_slice fuel depth [dnats ds; emb x; dranges index] tt)
    (Data.slice {| dims := ds; data := x |} index).
Proof. exact @DataWrapP.w_slice_run. Qed.
Print Assumptions slice_wrapper_is_slice.

Theorem patch_wrapper_is_patch :
  forall (A : Type) (SA : Scalar A) (fapp : string -> list A -> option A) (red : Data.reducer)
    (fuel depth : nat) (ds : list nat) (x : nd A) (index : list (nat * nat)) 
    (uds : list nat) (ux : nd A),
  DataWrapP.returns
    (drun fapp unit (DataExt.dext red) GoWrap.w_patch fuel depth
       [dnats ds; emb x; dranges index; dnats uds; emb ux] tt)
    (Data.patch {| dims := ds; data := x |} index {| dims := uds; data := ux |}).
Proof. exact @DataWrapP.w_patch_run. Qed.
Print Assumptions patch_wrapper_is_patch.

Theorem reshape_wrapper_is_reshape :
  forall (A : Type) (SA : Scalar A) (fapp : string -> list A -> option A) (red : Data.reducer)
    (fuel depth : nat) (ds : list nat) (x : nd A) (shape : list nat),
  DataWrapP.returns
    (drun fapp unit (DataExt.dext red) GoWrap.w_reshape fuel depth [dnats ds; emb x; dnats shape] tt)
    (Data.reshape {| dims := ds; data := x |} shape).
Proof. exact @DataWrapP.w_reshape_run. Qed.
Print Assumptions reshape_wrapper_is_reshape.

Theorem unSqueeze_wrapper_is_unSqueeze :
  forall (A : Type) (SA : Scalar A) (fapp : string -> list A -> option A) (red : Data.reducer)
    (fuel depth : nat) (ds : list nat) (x : nd A) (dim : nat),
  dim <= Datatypes.length ds ->
  DataWrapP.returns
    (drun fapp unit (DataExt.dext red) GoWrap.w_unSqueeze fuel depth
       [dnats ds; emb x; DI (Z.of_nat dim)] tt) (Data.unSqueeze {| dims := ds; data := x |} dim).
Proof. exact @DataWrapP.w_unSqueeze_run. Qed.
Print Assumptions unSqueeze_wrapper_is_unSqueeze.

Theorem squeeze_wrapper_is_squeeze :
  forall (A : Type) (SA : Scalar A) (fapp : string -> list A -> option A) (red : Data.reducer)
    (fuel depth : nat) (ds : list nat) (x : nd A) (dim : nat),
  dim <= Datatypes.length ds ->
  DataWrapP.returns
    (drun fapp unit (DataExt.dext red) GoWrap.w_squeeze fuel depth [dnats ds; emb x; DI (Z.of_nat dim)]
       tt) (Data.squeeze {| dims := ds; data := x |} dim).
Proof. exact @DataWrapP.w_squeeze_run. Qed.
Print Assumptions squeeze_wrapper_is_squeeze.

Theorem flatten_wrapper_is_flatten :
  forall (A : Type) (SA : Scalar A) (fapp : string -> list A -> option A) (red : Data.reducer)
    (fuel depth : nat) (ds : list nat) (x : nd A) (dim : nat),
  dim <= Datatypes.length ds ->
  DataWrapP.returns
    (drun fapp unit (DataExt.dext red) GoWrap.w_flatten fuel depth [dnats ds; emb x; DI (Z.of_nat dim)]
       tt) (Data.flatten {| dims := ds; data := x |} dim).
Proof. exact @DataWrapP.w_flatten_run. Qed.
Print Assumptions flatten_wrapper_is_flatten.

Theorem broadcast_wrapper_is_broadcast :
  forall (A : Type) (SA : Scalar A) (fapp : string -> list A -> option A) (red : Data.reducer)
    (fuel depth : nat) (ds : list nat) (x : nd A) (shape : list nat),
  DataWrapP.returns
    (drun fapp unit (DataExt.dext red) GoWrap.w_broadcast fuel depth [dnats ds; emb x; dnats shape] tt)
    (Data.broadcast {| dims := ds; data := x |} shape).
Proof. exact @DataWrapP.w_broadcast_run. Qed.
Print Assumptions broadcast_wrapper_is_broadcast.

Theorem constTensor_wrapper_is_constTensor :
  forall (A : Type) (SA : Scalar A) (fapp : string -> list A -> option A) (red : Data.reducer)
    (fuel depth : nat) (v : A) (ds : list nat),
  DataWrapP.returns
    (drun fapp unit (DataExt.dext red) GoWrap.w_constTensor fuel depth [DF v; dnats ds] tt)
    (Data.constTensor v ds).
Proof. exact @DataWrapP.w_constTensor_run. Qed.
Print Assumptions constTensor_wrapper_is_constTensor.

Theorem eyeMatrix_wrapper_is_eyeMatrix :
  forall (A : Type) (SA : Scalar A) (fapp : string -> list A -> option A) (red : Data.reducer)
    (fuel depth n : nat),
  DataWrapP.returns
    (drun fapp unit (DataExt.dext red) GoWrap.w_eyeMatrix fuel depth [DI (Z.of_nat n)] tt)
    (Data.eyeMatrix n).
Proof. exact @DataWrapP.w_eyeMatrix_run. Qed.
Print Assumptions eyeMatrix_wrapper_is_eyeMatrix.

Theorem initTensorFromData_scalar :
  forall (A : Type) (SA : Scalar A) (fapp : string -> list A -> option A) (St : Type)
    (ext : string -> list dval -> St -> option (list dval * St)) (fuel depth : nat) 
    (s : St) (x : nd A),
  DataFromDataP.typed 0 x ->
  dataUnity x = true ->
  exists (t : tensor A) (g l : denv),
    Data.initTensorFromData x = Some t /\
    dims t = Data.shapeOf x /\
    data t = x /\
    drun fapp St ext GoWrap.w_initTensorFromData_rank0 fuel depth [emb x] s =
    DRet St [dnats (dims t); emb (data t)] s g l.
Proof. exact @DataFromDataP.fromData_rank0. Qed.
Print Assumptions initTensorFromData_scalar.

Theorem initTensorFromData_rank1 :
  forall (A : Type) (SA : Scalar A) (fapp : string -> list A -> option A) (St : Type)
    (ext : string -> list dval -> St -> option (list dval * St)) (fuel depth : nat) 
    (s : St) (x : nd A),
  DataFromDataP.typed 1 x ->
  dataUnity x = true ->
  exists (t : tensor A) (g l : denv),
    Data.initTensorFromData x = Some t /\
    dims t = Data.shapeOf x /\
    data t = x /\
    drun fapp St ext GoWrap.w_initTensorFromData_rank1 fuel depth [emb x] s =
    DRet St [dnats (dims t); emb (data t)] s g l.
Proof. exact @DataFromDataP.fromData_rank1. Qed.
Print Assumptions initTensorFromData_rank1.

Theorem initTensorFromData_rank2 :
  forall (A : Type) (SA : Scalar A) (fapp : string -> list A -> option A) (St : Type)
    (ext : string -> list dval -> St -> option (list dval * St)) (fuel depth : nat) 
    (s : St) (x : nd A),
  DataFromDataP.typed 2 x ->
  dataUnity x = true ->
  exists (t : tensor A) (g l : denv),
    Data.initTensorFromData x = Some t /\
    dims t = Data.shapeOf x /\
    data t = x /\
    drun fapp St ext GoWrap.w_initTensorFromData_rank2 fuel depth [emb x] s =
    DRet St [dnats (dims t); emb (data t)] s g l.
Proof. exact @DataFromDataP.fromData_rank2. Qed.
Print Assumptions initTensorFromData_rank2.

Theorem initTensorFromData_rank3 :
  forall (A : Type) (SA : Scalar A) (fapp : string -> list A -> option A) (St : Type)
    (ext : string -> list dval -> St -> option (list dval * St)) (fuel depth : nat) 
    (s : St) (x : nd A),
  DataFromDataP.typed 3 x ->
  dataUnity x = true ->
  exists (t : tensor A) (g l : denv),
    Data.initTensorFromData x = Some t /\
    dims t = Data.shapeOf x /\
    data t = x /\
    drun fapp St ext GoWrap.w_initTensorFromData_rank3 fuel depth [emb x] s =
    DRet St [dnats (dims t); emb (data t)] s g l.
Proof. exact @DataFromDataP.fromData_rank3. Qed.
Print Assumptions initTensorFromData_rank3.

Theorem initTensorFromData_rank4 :
  forall (A : Type) (SA : Scalar A) (fapp : string -> list A -> option A) (St : Type)
    (ext : string -> list dval -> St -> option (list dval * St)) (fuel depth : nat) 
    (s : St) (x : nd A),
  DataFromDataP.typed 4 x ->
  dataUnity x = true ->
  exists (t : tensor A) (g l : denv),
    Data.initTensorFromData x = Some t /\
    dims t = Data.shapeOf x /\
    data t = x /\
    drun fapp St ext GoWrap.w_initTensorFromData_rank4 fuel depth [emb x] s =
    DRet St [dnats (dims t); emb (data t)] s g l.
Proof. exact @DataFromDataP.fromData_rank4. Qed.
Print Assumptions initTensorFromData_rank4.

Theorem initTensorFromData_rank4_on_rectangular_data :
  forall (A : Type) (SA : Scalar A) (fapp : string -> list A -> option A) (St : Type)
    (ext : string -> list dval -> St -> option (list dval * St)) (fuel depth : nat) 
    (s : St) (x : nd A) (n0 n1 n2 n3 : nat),
  wfnd [n0; n1; n2; n3] x ->
  0 < n0 ->
  0 < n1 ->
  0 < n2 ->
  exists g l : denv,
    drun fapp St ext GoWrap.w_initTensorFromData_rank4 fuel depth [emb x] s =
    DRet St [dnats [n0; n1; n2; n3]; emb x] s g l.
Proof. exact @DataFromDataP.fromData_shaped4. Qed.
Print Assumptions initTensorFromData_rank4_on_rectangular_data.

Theorem initTensorFromData_guard_gives_rectangular_data :
  forall (A : Type) (r : nat) (x : nd A),
  DataFromDataP.typed r x ->
  dataUnity x = true ->
  wfnd (Data.shapeOf x) x /\
  Datatypes.length (Data.shapeOf x) = r /\ Forall (fun d : nat => 0 < d) (Data.shapeOf x).
Proof. exact @DataFromDataP.unity_wf. Qed.
Print Assumptions initTensorFromData_guard_gives_rectangular_data.

Theorem initTensorFromData_copies_rectangular_data_unchanged :
  forall (A : Type) (ds : list nat) (x : nd A), wfnd ds x -> Data.copyData ds x = Some x.
Proof. exact @DataFromDataP.copyData_id. Qed.
Print Assumptions initTensorFromData_copies_rectangular_data_unchanged.

Theorem initTensorFromData_empty_outer_slice_panics :
  forall (A : Type) (SA : Scalar A) (fapp : string -> list A -> option A) (St : Type)
    (ext : string -> list (@dval A) -> St -> option (list (@dval A) * St)) (fuel depth : nat) 
    (s : St),
  @dataUnity A (@Vec A []) = false /\
  @Data.initTensorFromData A (@Vec A []) = @Some (tensor A) {| dims := [0]; data := @Vec A [] |} /\
  @drun A SA fapp St ext GoWrap.w_initTensorFromData_rank2 fuel depth [@emb A (@Vec A [])] s =
  @DPanic A St /\
  @drun A SA fapp St ext GoWrap.w_initTensorFromData_rank3 fuel depth [@emb A (@Vec A [])] s =
  @DPanic A St /\
  @drun A SA fapp St ext GoWrap.w_initTensorFromData_rank4 fuel depth [@emb A (@Vec A [])] s =
  @DPanic A St.
Proof. exact @DataFromDataP.fromData_empty_outer. Qed.
Print Assumptions initTensorFromData_empty_outer_slice_panics.

Theorem initTensorFromData_longer_row_panics :
  forall (A : Type) (SA : Scalar A) (fapp : string -> list A -> option A) (St : Type)
    (ext : string -> list dval -> St -> option (list dval * St)) (fuel depth : nat) 
    (s : St) (c0 rows c : list (nd A)),
  DataFromDataP.typed 2 (Vec (Vec c0 :: rows)) ->
  In (Vec c) rows ->
  Datatypes.length c0 < Datatypes.length c ->
  drun fapp St ext GoWrap.w_initTensorFromData_rank2 fuel depth [emb (Vec (Vec c0 :: rows))] s =
  DPanic St.
Proof. exact @DataFromDataP.fromData_rank2_long_row. Qed.
Print Assumptions initTensorFromData_longer_row_panics.
