(* C16S — source tie by translation for FC.forward.
   Statements only (proofs: Proofs/Chain*P.v).  Model/Chains.v is REGENERATED from /repo's Go sources
   on every run by the translator harness/chainx (go/ast): the straight-line chains of Tensor method
   calls of FC.forward (component/layers/fc.go).
   Each theorem interprets the generated chain with the model's own operations (Model/ChainIR.v) and
   states that the interpretation IS the model's definition — for every heap, argument and outcome.
   An edit of the Go source that is not semantically the same chain changes Chains.v and the theorem
   about it no longer checks.  Any scalar type, no laws: closed under the global context. *)
From Coq Require Import String List ZArith Bool.
From Qeep Require Import Model.Scalar Model.Nd Model.Data Model.Valid Model.Api Model.Grad Model.Components Model.ChainIR.
From Qeep Require Model.Chains.
From Qeep Require Import Proofs.ChainBaseP Proofs.ChainFcP.
Import ListNotations.
Local Open Scope string_scope.

Theorem fc_forward_is_its_source_chain :
  forall (A : Type) (SA : Scalar A) (h : heap) (w b x : nat) (nm : option nat),
  (rankOf h x =? 2)%nat = true ->
  fc_forward h w b [Some x] nm =
  atomically h
    (asHres
       (runFun (hooksH rsNone noUser nm noGuard) Chains.fc_forward h
          [("c.Weight", w); ("c.Bias", b); ("x", x)])).
Proof. exact @ChainFcP.fc_chain. Qed.
Print Assumptions fc_forward_is_its_source_chain.
