(* C18K — source tie BY TRANSLATION for the component layer — initializers: config validation = init_valid, constructors, and the scale formulas sqrt(6/fan) / sqrt(2/fan) and the arguments handed to tensor.RandU / RandN / Full = those of init_value; the random tensor constructors consume exactly one draw per element, in row-major order, from the position the previous constructor left (oracle Model/RandExt.v); END TO END through package tensor (tensorInitConf and tensor.RandU/RandN/Full linked): every Init ends in the cputensor constructor with its scale arguments and gradient tracking ON.
   Statements only (proofs: Proofs/Comp*P.v).  Model/GoComp.v is REGENERATED from /repo's Go sources on every run by
   harness/gox (comp.go): the component layer's own logic — input validators, config validators, constructors, the
   scale formulas of the initializers, the Accuracy counters — as loop-free programs of the imperative language of
   Model/DataIR.v.  A tensor.Tensor interface value is nil or a node id of the model's heap; a config pointer is nil or
   the list of its fields; an error is 0 / 1; methods of tensors, float comparisons (parameters fltb / fleb: an
   abstract scalar has no order), int->float conversion and the library functions (tensor.RandU, the forward bodies
   that Properties/*S.v cover) are calls of the oracle Model/CompExt.v, in which SIBLING functions are linked by
   running their own translated programs.  Each theorem says that RUNNING the translated program returns exactly what
   the hand-written model (Model/Components.v) computes, for ALL heaps, arguments, fuel and depth; a returned outcome
   is never a panic.  An edit of one of these Go functions changes GoComp.v and breaks the theorem unless it computes
   the same thing.  Closed under the global context. *)
From Coq Require Import String List ZArith Bool Arith.
From Qeep Require Import Model.Scalar Model.Nd Model.Fill Model.Data Model.Valid Model.Api Model.Grad Model.Backprop Model.Components Model.Consts Model.DataIR Model.HeapExt Model.CompExt.
From Qeep Require Model.GoComp Model.GoWrap Model.DataExt Model.RandExt.
From Qeep Require Import Proofs.DataIRP.
From Qeep Require Proofs.CompValidP Proofs.CompAccP Proofs.CompInitP Proofs.CompInputP Proofs.CompFcP Proofs.CompTensorP Proofs.CompInitE2EP Proofs.DataRandP Proofs.FillP Proofs.NdP.
Import ListNotations.
Local Open Scope string_scope.

Theorem HeUniform_config_is_init_valid :
  forall (A : Type) (SA : Scalar A) (fltb fleb : A -> A -> bool)
    (lib : string -> list dval -> heap -> option (list dval * heap)) (dl du ds : dec) 
    (fuel depth : nat) (c : option Z) (h : heap),
  CompInitP.outcome
    (drun cfapp heap (cext0 fltb fleb lib) GoComp.c_HeUniform_toValidHeUniformConfig fuel depth
       [CompInitP.cfgI1 c] h) =
  Some ([CompInitP.cfgI1 c; CompInitP.flag (init_valid dl du ds (IHeUniform c))], h).
Proof. exact @CompInitP.HeUniform_config. Qed.
Print Assumptions HeUniform_config_is_init_valid.

Theorem HeNormal_config_is_init_valid :
  forall (A : Type) (SA : Scalar A) (fltb fleb : A -> A -> bool)
    (lib : string -> list dval -> heap -> option (list dval * heap)) (dl du ds : dec) 
    (fuel depth : nat) (c : option Z) (h : heap),
  CompInitP.outcome
    (drun cfapp heap (cext0 fltb fleb lib) GoComp.c_HeNormal_toValidHeNormalConfig fuel depth
       [CompInitP.cfgI1 c] h) =
  Some ([CompInitP.cfgI1 c; CompInitP.flag (init_valid dl du ds (IHeNormal c))], h).
Proof. exact @CompInitP.HeNormal_config. Qed.
Print Assumptions HeNormal_config_is_init_valid.

Theorem XavierUniform_config_is_init_valid :
  forall (A : Type) (SA : Scalar A) (fltb fleb : A -> A -> bool)
    (lib : string -> list dval -> heap -> option (list dval * heap)) (dl du ds : dec) 
    (fuel depth : nat) (c : option (Z * Z)) (h : heap),
  CompInitP.outcome
    (drun cfapp heap (cext0 fltb fleb lib) GoComp.c_XavierUniform_toValidXavierUniformConfig fuel depth
       [CompInitP.cfgI2 c] h) =
  Some ([CompInitP.cfgI2 c; CompInitP.flag (init_valid dl du ds (IXavierUniform c))], h).
Proof. exact @CompInitP.XavierUniform_config. Qed.
Print Assumptions XavierUniform_config_is_init_valid.

Theorem XavierNormal_config_is_init_valid :
  forall (A : Type) (SA : Scalar A) (fltb fleb : A -> A -> bool)
    (lib : string -> list dval -> heap -> option (list dval * heap)) (dl du ds : dec) 
    (fuel depth : nat) (c : option (Z * Z)) (h : heap),
  CompInitP.outcome
    (drun cfapp heap (cext0 fltb fleb lib) GoComp.c_XavierNormal_toValidXavierNormalConfig fuel depth
       [CompInitP.cfgI2 c] h) =
  Some ([CompInitP.cfgI2 c; CompInitP.flag (init_valid dl du ds (IXavierNormal c))], h).
Proof. exact @CompInitP.XavierNormal_config. Qed.
Print Assumptions XavierNormal_config_is_init_valid.

Theorem Uniform_config :
  forall (A : Type) (SA : Scalar A) (fltb fleb : A -> A -> bool)
    (lib : string -> list dval -> heap -> option (list dval * heap)) (fuel depth : nat)
    (c : option (A * A)) (h : heap),
  let
  '(l, u) := match c with
             | Some p => p
             | None => CompInitP.uniDefault
             end in
   CompInitP.outcome
     (drun cfapp heap (cext0 fltb fleb lib) GoComp.c_Uniform_toValidUniformConfig fuel depth
        [CompInitP.cfgF2 c] h) = Some ([DL [DF l; DF u]; CompInitP.flag (fltb l u)], h).
Proof. exact @CompInitP.Uniform_config. Qed.
Print Assumptions Uniform_config.

Theorem Normal_config :
  forall (A : Type) (SA : Scalar A) (fltb fleb : A -> A -> bool)
    (lib : string -> list dval -> heap -> option (list dval * heap)) (fuel depth : nat)
    (c : option (A * A)) (h : heap),
  let
  '(m, s) := match c with
             | Some p => p
             | None => CompInitP.norDefault
             end in
   CompInitP.outcome
     (drun cfapp heap (cext0 fltb fleb lib) GoComp.c_Normal_toValidNormalConfig fuel depth
        [CompInitP.cfgF2 c] h) = Some ([DL [DF m; DF s]; CompInitP.flag (fltb (sconst 0 0) s)], h).
Proof. exact @CompInitP.Normal_config. Qed.
Print Assumptions Normal_config.

Theorem Uniform_config_is_init_valid :
  forall (A : Type) (SA : Scalar A) (fltb fleb : A -> A -> bool)
    (lib : string -> list dval -> heap -> option (list dval * heap)) (dUniL dUniU dNorS : dec)
    (fuel depth : nat) (l u : dec) (h : heap),
  fltb (dcst l) (dcst u) = dec_lt l u ->
  CompInitP.outcome
    (drun cfapp heap (cext0 fltb fleb lib) GoComp.c_Uniform_toValidUniformConfig fuel depth
       [CompInitP.cfgD2 (Some (l, u))] h) =
  Some
    ([DL [DF (dcst l); DF (dcst u)];
      CompInitP.flag (init_valid dUniL dUniU dNorS (IUniform (Some (l, u))))], h).
Proof. exact @CompInitP.Uniform_config_dec. Qed.
Print Assumptions Uniform_config_is_init_valid.

Theorem Uniform_default_config_is_init_valid :
  forall (A : Type) (SA : Scalar A) (fltb fleb : A -> A -> bool)
    (lib : string -> list dval -> heap -> option (list dval * heap)) (dNorS : dec) 
    (fuel depth : nat) (h : heap),
  fltb (dcst c_uniform_lower) (dcst c_uniform_upper) = dec_lt c_uniform_lower c_uniform_upper ->
  CompInitP.outcome
    (drun cfapp heap (cext0 fltb fleb lib) GoComp.c_Uniform_toValidUniformConfig fuel depth
       [CompInitP.cfgD2 None] h) =
  Some
    ([DL [DF (dcst c_uniform_lower); DF (dcst c_uniform_upper)];
      CompInitP.flag (init_valid c_uniform_lower c_uniform_upper dNorS (IUniform None))], h).
Proof. exact @CompInitP.Uniform_config_dec_nil. Qed.
Print Assumptions Uniform_default_config_is_init_valid.

Theorem Normal_config_is_init_valid :
  forall (A : Type) (SA : Scalar A) (fltb fleb : A -> A -> bool)
    (lib : string -> list dval -> heap -> option (list dval * heap)) (dUniL dUniU dNorS : dec)
    (fuel depth : nat) (m s : dec) (h : heap),
  fltb (sconst 0 0) (dcst s) = dec_pos s ->
  CompInitP.outcome
    (drun cfapp heap (cext0 fltb fleb lib) GoComp.c_Normal_toValidNormalConfig fuel depth
       [CompInitP.cfgD2 (Some (m, s))] h) =
  Some
    ([DL [DF (dcst m); DF (dcst s)];
      CompInitP.flag (init_valid dUniL dUniU dNorS (INormal (Some (m, s))))], h).
Proof. exact @CompInitP.Normal_config_dec. Qed.
Print Assumptions Normal_config_is_init_valid.

Theorem Normal_default_config_is_init_valid :
  forall (A : Type) (SA : Scalar A) (fltb fleb : A -> A -> bool)
    (lib : string -> list dval -> heap -> option (list dval * heap)) (dUniL dUniU : dec)
    (fuel depth : nat) (h : heap),
  fltb (sconst 0 0) (dcst c_normal_stddev) = dec_pos c_normal_stddev ->
  CompInitP.outcome
    (drun cfapp heap (cext0 fltb fleb lib) GoComp.c_Normal_toValidNormalConfig fuel depth
       [CompInitP.cfgD2 None] h) =
  Some
    ([DL [DF (dcst c_normal_mean); DF (dcst c_normal_stddev)];
      CompInitP.flag (init_valid dUniL dUniU c_normal_stddev (INormal None))], h).
Proof. exact @CompInitP.Normal_config_dec_nil. Qed.
Print Assumptions Normal_default_config_is_init_valid.

Theorem Full_config :
  forall (A : Type) (SA : Scalar A) (fltb fleb : A -> A -> bool)
    (lib : string -> list dval -> heap -> option (list dval * heap)) (fuel depth : nat) 
    (c : option A) (h : heap),
  CompInitP.outcome
    (drun cfapp heap (cext0 fltb fleb lib) GoComp.c_Full_toValidFullConfig fuel depth
       [CompInitP.cfgF1 c] h) = Some ([DL [DF match c with
                                              | Some v => v
                                              | None => sconst 0 0
                                              end]], h).
Proof. exact @CompInitP.Full_config. Qed.
Print Assumptions Full_config.

Theorem Full_config_default_is_the_models_constant :
  forall (A : Type) (SA : Scalar A) (fltb fleb : A -> A -> bool)
    (lib : string -> list dval -> heap -> option (list dval * heap)) (fuel depth : nat) 
    (c : option dec) (h : heap),
  CompInitP.outcome
    (drun cfapp heap (cext0 fltb fleb lib) GoComp.c_Full_toValidFullConfig fuel depth
       [CompInitP.cfgD1 c] h) =
  Some ([DL [DF (dcst match c with
                      | Some d => d
                      | None => c_full_value
                      end)]], h).
Proof. exact @CompInitP.Full_config_dec. Qed.
Print Assumptions Full_config_default_is_the_models_constant.

Theorem uniform_defaults_are_the_models_constants :
  forall (A : Type) (SA : Scalar A), CompInitP.uniDefault = (dcst c_uniform_lower, dcst c_uniform_upper).
Proof. exact @CompInitP.uniDefault_consts. Qed.
Print Assumptions uniform_defaults_are_the_models_constants.

Theorem normal_defaults_are_the_models_constants :
  forall (A : Type) (SA : Scalar A), CompInitP.norDefault = (dcst c_normal_mean, dcst c_normal_stddev).
Proof. exact @CompInitP.norDefault_consts. Qed.
Print Assumptions normal_defaults_are_the_models_constants.

Theorem NewHeUniform :
  forall (A : Type) (SA : Scalar A) (fltb fleb : A -> A -> bool)
    (lib : string -> list dval -> heap -> option (list dval * heap)) (dl du ds : dec) 
    (fuel depth : nat) (c : option Z) (h : heap),
  CompInitP.outcome
    (drun cfapp heap (cext fltb fleb lib) GoComp.c_HeUniform_NewHeUniform fuel depth [
       CompInitP.cfgI1 c] h) =
  Some (if init_valid dl du ds (IHeUniform c) then [CompInitP.cfgI1 c; DI 0] else [DNil; DI 1], h).
Proof. exact @CompInitP.NewHeUniform. Qed.
Print Assumptions NewHeUniform.

Theorem NewHeNormal :
  forall (A : Type) (SA : Scalar A) (fltb fleb : A -> A -> bool)
    (lib : string -> list dval -> heap -> option (list dval * heap)) (dl du ds : dec) 
    (fuel depth : nat) (c : option Z) (h : heap),
  CompInitP.outcome
    (drun cfapp heap (cext fltb fleb lib) GoComp.c_HeNormal_NewHeNormal fuel depth [CompInitP.cfgI1 c] h) =
  Some (if init_valid dl du ds (IHeNormal c) then [CompInitP.cfgI1 c; DI 0] else [DNil; DI 1], h).
Proof. exact @CompInitP.NewHeNormal. Qed.
Print Assumptions NewHeNormal.

Theorem NewXavierUniform :
  forall (A : Type) (SA : Scalar A) (fltb fleb : A -> A -> bool)
    (lib : string -> list dval -> heap -> option (list dval * heap)) (dl du ds : dec) 
    (fuel depth : nat) (c : option (Z * Z)) (h : heap),
  CompInitP.outcome
    (drun cfapp heap (cext fltb fleb lib) GoComp.c_XavierUniform_NewXavierUniform fuel depth
       [CompInitP.cfgI2 c] h) =
  Some (if init_valid dl du ds (IXavierUniform c) then [CompInitP.cfgI2 c; DI 0] else [DNil; DI 1], h).
Proof. exact @CompInitP.NewXavierUniform. Qed.
Print Assumptions NewXavierUniform.

Theorem NewXavierNormal :
  forall (A : Type) (SA : Scalar A) (fltb fleb : A -> A -> bool)
    (lib : string -> list dval -> heap -> option (list dval * heap)) (dl du ds : dec) 
    (fuel depth : nat) (c : option (Z * Z)) (h : heap),
  CompInitP.outcome
    (drun cfapp heap (cext fltb fleb lib) GoComp.c_XavierNormal_NewXavierNormal fuel depth
       [CompInitP.cfgI2 c] h) =
  Some (if init_valid dl du ds (IXavierNormal c) then [CompInitP.cfgI2 c; DI 0] else [DNil; DI 1], h).
Proof. exact @CompInitP.NewXavierNormal. Qed.
Print Assumptions NewXavierNormal.

Theorem NewUniform :
  forall (A : Type) (SA : Scalar A) (fltb fleb : A -> A -> bool)
    (lib : string -> list dval -> heap -> option (list dval * heap)) (fuel depth : nat)
    (c : option (A * A)) (h : heap),
  let
  '(l, u) := match c with
             | Some p => p
             | None => CompInitP.uniDefault
             end in
   CompInitP.outcome
     (drun cfapp heap (cext fltb fleb lib) GoComp.c_Uniform_NewUniform fuel depth [CompInitP.cfgF2 c] h) =
   Some (if fltb l u then [DL [DF l; DF u]; DI 0] else [DNil; DI 1], h).
Proof. exact @CompInitP.NewUniform. Qed.
Print Assumptions NewUniform.

Theorem NewNormal :
  forall (A : Type) (SA : Scalar A) (fltb fleb : A -> A -> bool)
    (lib : string -> list dval -> heap -> option (list dval * heap)) (fuel depth : nat)
    (c : option (A * A)) (h : heap),
  let
  '(m, s) := match c with
             | Some p => p
             | None => CompInitP.norDefault
             end in
   CompInitP.outcome
     (drun cfapp heap (cext fltb fleb lib) GoComp.c_Normal_NewNormal fuel depth [CompInitP.cfgF2 c] h) =
   Some (if fltb (sconst 0 0) s then [DL [DF m; DF s]; DI 0] else [DNil; DI 1], h).
Proof. exact @CompInitP.NewNormal. Qed.
Print Assumptions NewNormal.

Theorem NewUniform_is_init_valid :
  forall (A : Type) (SA : Scalar A) (fltb fleb : A -> A -> bool)
    (lib : string -> list dval -> heap -> option (list dval * heap)) (dNorS : dec) 
    (fuel depth : nat) (c : option (dec * dec)) (h : heap),
  let
  '(l, u) := match c with
             | Some p => p
             | None => (c_uniform_lower, c_uniform_upper)
             end in
   fltb (dcst l) (dcst u) = dec_lt l u ->
   CompInitP.outcome
     (drun cfapp heap (cext fltb fleb lib) GoComp.c_Uniform_NewUniform fuel depth [CompInitP.cfgD2 c] h) =
   Some
     (if init_valid c_uniform_lower c_uniform_upper dNorS (IUniform c)
      then [DL [DF (dcst l); DF (dcst u)]; DI 0]
      else [DNil; DI 1], h).
Proof. exact @CompInitP.NewUniform_dec. Qed.
Print Assumptions NewUniform_is_init_valid.

Theorem NewNormal_is_init_valid :
  forall (A : Type) (SA : Scalar A) (fltb fleb : A -> A -> bool)
    (lib : string -> list dval -> heap -> option (list dval * heap)) (dUniL dUniU : dec)
    (fuel depth : nat) (c : option (dec * dec)) (h : heap),
  let
  '(m, s) := match c with
             | Some p => p
             | None => (c_normal_mean, c_normal_stddev)
             end in
   fltb (sconst 0 0) (dcst s) = dec_pos s ->
   CompInitP.outcome
     (drun cfapp heap (cext fltb fleb lib) GoComp.c_Normal_NewNormal fuel depth [CompInitP.cfgD2 c] h) =
   Some
     (if init_valid dUniL dUniU c_normal_stddev (INormal c)
      then [DL [DF (dcst m); DF (dcst s)]; DI 0]
      else [DNil; DI 1], h).
Proof. exact @CompInitP.NewNormal_dec. Qed.
Print Assumptions NewNormal_is_init_valid.

Theorem NewFull :
  forall (A : Type) (SA : Scalar A) (fltb fleb : A -> A -> bool)
    (lib : string -> list dval -> heap -> option (list dval * heap)) (fuel depth : nat) 
    (c : option A) (h : heap),
  CompInitP.outcome
    (drun cfapp heap (cext fltb fleb lib) GoComp.c_Full_NewFull fuel depth [CompInitP.cfgF1 c] h) =
  Some ([DL [DF match c with
                | Some v => v
                | None => sconst 0 0
                end]], h).
Proof. exact @CompInitP.NewFull. Qed.
Print Assumptions NewFull.

Theorem XavierUniform_Init_scale :
  forall (A : Type) (SA : Scalar A) (fltb fleb : A -> A -> bool)
    (lib : string -> list dval -> heap -> option (list dval * heap)) (fuel depth : nat) 
    (fi fo : Z) (sh cfg : dval) (h h1 : heap),
  (0 <= fi + fo)%Z ->
  lib "tensorInitConf" [] h = Some ([cfg], h1) ->
  let r := sqrtOver 6 (fi + fo) in
  CompInitP.isCall
    (drun cfapp heap (cext0 fltb fleb lib) GoComp.c_XavierUniform_Init fuel depth [DI fi; DI fo; sh] h)
    (lib "tensor.RandU" [sh; DF (ssub (sconst 0 0) r); DF r; cfg] h1).
Proof. exact @CompInitP.XavierUniform_Init. Qed.
Print Assumptions XavierUniform_Init_scale.

Theorem XavierNormal_Init_scale :
  forall (A : Type) (SA : Scalar A) (fltb fleb : A -> A -> bool)
    (lib : string -> list dval -> heap -> option (list dval * heap)) (fuel depth : nat) 
    (fi fo : Z) (sh cfg : dval) (h h1 : heap),
  (0 <= fi + fo)%Z ->
  lib "tensorInitConf" [] h = Some ([cfg], h1) ->
  CompInitP.isCall
    (drun cfapp heap (cext0 fltb fleb lib) GoComp.c_XavierNormal_Init fuel depth [DI fi; DI fo; sh] h)
    (lib "tensor.RandN" [sh; DF (sconst 0 0); DF (sqrtOver 2 (fi + fo)); cfg] h1).
Proof. exact @CompInitP.XavierNormal_Init. Qed.
Print Assumptions XavierNormal_Init_scale.

Theorem HeUniform_Init_scale :
  forall (A : Type) (SA : Scalar A) (fltb fleb : A -> A -> bool)
    (lib : string -> list dval -> heap -> option (list dval * heap)) (fuel depth : nat) 
    (f : Z) (sh cfg : dval) (h h1 : heap),
  (0 <= f)%Z ->
  lib "tensorInitConf" [] h = Some ([cfg], h1) ->
  let r := sqrtOver 6 f in
  CompInitP.isCall
    (drun cfapp heap (cext0 fltb fleb lib) GoComp.c_HeUniform_Init fuel depth [DI f; sh] h)
    (lib "tensor.RandU" [sh; DF (ssub (sconst 0 0) r); DF r; cfg] h1).
Proof. exact @CompInitP.HeUniform_Init. Qed.
Print Assumptions HeUniform_Init_scale.

Theorem HeNormal_Init_scale :
  forall (A : Type) (SA : Scalar A) (fltb fleb : A -> A -> bool)
    (lib : string -> list dval -> heap -> option (list dval * heap)) (fuel depth : nat) 
    (f : Z) (sh cfg : dval) (h h1 : heap),
  (0 <= f)%Z ->
  lib "tensorInitConf" [] h = Some ([cfg], h1) ->
  CompInitP.isCall
    (drun cfapp heap (cext0 fltb fleb lib) GoComp.c_HeNormal_Init fuel depth [DI f; sh] h)
    (lib "tensor.RandN" [sh; DF (sconst 0 0); DF (sqrtOver 2 f); cfg] h1).
Proof. exact @CompInitP.HeNormal_Init. Qed.
Print Assumptions HeNormal_Init_scale.

Theorem Uniform_Init_passes_its_bounds :
  forall (A : Type) (SA : Scalar A) (fltb fleb : A -> A -> bool)
    (lib : string -> list dval -> heap -> option (list dval * heap)) (fuel depth : nat) 
    (l u : A) (sh cfg : dval) (h h1 : heap),
  lib "tensorInitConf" [] h = Some ([cfg], h1) ->
  CompInitP.isCall
    (drun cfapp heap (cext0 fltb fleb lib) GoComp.c_Uniform_Init fuel depth [DF l; DF u; sh] h)
    (lib "tensor.RandU" [sh; DF l; DF u; cfg] h1).
Proof. exact @CompInitP.Uniform_Init. Qed.
Print Assumptions Uniform_Init_passes_its_bounds.

Theorem Normal_Init_passes_its_parameters :
  forall (A : Type) (SA : Scalar A) (fltb fleb : A -> A -> bool)
    (lib : string -> list dval -> heap -> option (list dval * heap)) (fuel depth : nat) 
    (m s : A) (sh cfg : dval) (h h1 : heap),
  lib "tensorInitConf" [] h = Some ([cfg], h1) ->
  CompInitP.isCall
    (drun cfapp heap (cext0 fltb fleb lib) GoComp.c_Normal_Init fuel depth [DF m; DF s; sh] h)
    (lib "tensor.RandN" [sh; DF m; DF s; cfg] h1).
Proof. exact @CompInitP.Normal_Init. Qed.
Print Assumptions Normal_Init_passes_its_parameters.

Theorem Full_Init_passes_its_value :
  forall (A : Type) (SA : Scalar A) (fltb fleb : A -> A -> bool)
    (lib : string -> list dval -> heap -> option (list dval * heap)) (fuel depth : nat) 
    (v : A) (sh cfg : dval) (h h1 : heap),
  lib "tensorInitConf" [] h = Some ([cfg], h1) ->
  CompInitP.isCall (drun cfapp heap (cext0 fltb fleb lib) GoComp.c_Full_Init fuel depth [DF v; sh] h)
    (lib "tensor.Full" [sh; DF v; cfg] h1).
Proof. exact @CompInitP.Full_Init. Qed.
Print Assumptions Full_Init_passes_its_value.

Theorem sqrtOver_is_sqrt_of_c_over_n :
  forall (A : Type) (SA : Scalar A) (c n : Z),
  sqrtOver c n = ssqrt (sdiv (sconst c 0) (sofnat (Z.to_nat n))).
Proof. exact @CompInitP.sqrtOver_eq. Qed.
Print Assumptions sqrtOver_is_sqrt_of_c_over_n.

Theorem init_value_XavierUniform_arguments :
  forall (A : Type) (SA : Scalar A) (dF dL dU dM dS : dec) (fi fo : Z) (shape : list Z) (pos : nat),
  init_value dF dL dU dM dS (IXavierUniform (Some (fi, fo))) shape pos =
  (let r := sqrtOver 6 (fi + fo) in v_randu shape (ssub (sconst 0 0) r) r true pos).
Proof. exact @CompInitP.init_value_XavierUniform. Qed.
Print Assumptions init_value_XavierUniform_arguments.

Theorem init_value_XavierNormal_arguments :
  forall (A : Type) (SA : Scalar A) (dF dL dU dM dS : dec) (fi fo : Z) (shape : list Z) (pos : nat),
  init_value dF dL dU dM dS (IXavierNormal (Some (fi, fo))) shape pos =
  v_randn shape (sconst 0 0) (sqrtOver 2 (fi + fo)) true pos.
Proof. exact @CompInitP.init_value_XavierNormal. Qed.
Print Assumptions init_value_XavierNormal_arguments.

Theorem init_value_HeUniform_arguments :
  forall (A : Type) (SA : Scalar A) (dF dL dU dM dS : dec) (f : Z) (shape : list Z) (pos : nat),
  init_value dF dL dU dM dS (IHeUniform (Some f)) shape pos =
  (let r := sqrtOver 6 f in v_randu shape (ssub (sconst 0 0) r) r true pos).
Proof. exact @CompInitP.init_value_HeUniform. Qed.
Print Assumptions init_value_HeUniform_arguments.

Theorem init_value_HeNormal_arguments :
  forall (A : Type) (SA : Scalar A) (dF dL dU dM dS : dec) (f : Z) (shape : list Z) (pos : nat),
  init_value dF dL dU dM dS (IHeNormal (Some f)) shape pos =
  v_randn shape (sconst 0 0) (sqrtOver 2 f) true pos.
Proof. exact @CompInitP.init_value_HeNormal. Qed.
Print Assumptions init_value_HeNormal_arguments.

Theorem uniform_fill_consumes_one_draw_per_element_in_row_major_order :
  forall (A : Type) (SA : Scalar A) (l u : A) (ds : list nat) (pos : nat),
  exists d : nd A,
    fill ds (uniformGen l u) pos = Some (d, pos + prodn ds) /\
    wfnd ds d /\
    flat d = map (fun k : nat => sadd (smul (srnd false (pos + k)) (ssub u l)) l) (seq 0 (prodn ds)).
Proof. exact @DataRandP.fill_uniform_rowmajor. Qed.
Print Assumptions uniform_fill_consumes_one_draw_per_element_in_row_major_order.

Theorem normal_fill_consumes_one_draw_per_element_in_row_major_order :
  forall (A : Type) (SA : Scalar A) (u s : A) (ds : list nat) (pos : nat),
  exists d : nd A,
    fill ds (normalGen u s) pos = Some (d, pos + prodn ds) /\
    wfnd ds d /\ flat d = map (fun k : nat => sadd (smul (srnd true (pos + k)) s) u) (seq 0 (prodn ds)).
Proof. exact @DataRandP.fill_normal_rowmajor. Qed.
Print Assumptions normal_fill_consumes_one_draw_per_element_in_row_major_order.

Theorem uniform_fill_state :
  forall (A : Type) (SA : Scalar A) (l u : A) (ds : list nat) (pos : nat),
  fill ds (uniformGen l u) pos =
  Some
    (tab ds (fun idx : list nat => sadd (smul (srnd false (pos + NdP.flatIdx ds idx)) (ssub u l)) l),
     pos + prodn ds).
Proof. exact @DataRandP.fill_uniform_state. Qed.
Print Assumptions uniform_fill_state.

Theorem normal_fill_state :
  forall (A : Type) (SA : Scalar A) (u s : A) (ds : list nat) (pos : nat),
  fill ds (normalGen u s) pos =
  Some
    (tab ds (fun idx : list nat => sadd (smul (srnd true (pos + NdP.flatIdx ds idx)) s) u),
     pos + prodn ds).
Proof. exact @DataRandP.fill_normal_state. Qed.
Print Assumptions normal_fill_state.

Theorem uniformRandomTensor_wrapper_is_the_model_and_advances_the_stream :
  forall (A : Type) (SA : Scalar A) (fapp : string -> list A -> option A) (fuel depth : nat) 
    (l u : A) (ds : list nat) (pos : nat),
  exists t : tensor A,
    uniformRandomTensor l u ds pos = Some t /\
    dims t = ds /\
    data t =
    tab ds (fun idx : list nat => sadd (smul (srnd false (pos + NdP.flatIdx ds idx)) (ssub u l)) l) /\
    (exists g l0 : denv,
       drun fapp nat RandExt.rext GoWrap.w_uniformRandomTensor fuel depth [DF l; DF u; dnats ds] pos =
       DRet nat [dnats (dims t); emb (data t)] (pos + prodn ds) g l0).
Proof. exact @DataRandP.w_uniformRandomTensor_run. Qed.
Print Assumptions uniformRandomTensor_wrapper_is_the_model_and_advances_the_stream.

Theorem normalRandomTensor_wrapper_is_the_model_and_advances_the_stream :
  forall (A : Type) (SA : Scalar A) (fapp : string -> list A -> option A) (fuel depth : nat) 
    (u s : A) (ds : list nat) (pos : nat),
  exists t : tensor A,
    normalRandomTensor u s ds pos = Some t /\
    dims t = ds /\
    data t = tab ds (fun idx : list nat => sadd (smul (srnd true (pos + NdP.flatIdx ds idx)) s) u) /\
    (exists g l0 : denv,
       drun fapp nat RandExt.rext GoWrap.w_normalRandomTensor fuel depth [DF u; DF s; dnats ds] pos =
       DRet nat [dnats (dims t); emb (data t)] (pos + prodn ds) g l0).
Proof. exact @DataRandP.w_normalRandomTensor_run. Qed.
Print Assumptions normalRandomTensor_wrapper_is_the_model_and_advances_the_stream.

Theorem consecutive_random_tensors_use_disjoint_draws :
  forall (A : Type) (SA : Scalar A) (fapp : string -> list A -> option A)
    (fuel1 depth1 fuel2 depth2 : nat) (l u m s : A) (ds1 ds2 : list nat) (pos : nat),
  exists (t1 : tensor A) (g1 l1 : denv),
    uniformRandomTensor l u ds1 pos = Some t1 /\
    drun fapp nat RandExt.rext GoWrap.w_uniformRandomTensor fuel1 depth1 [DF l; DF u; dnats ds1] pos =
    DRet nat [dnats (dims t1); emb (data t1)] (pos + prodn ds1) g1 l1 /\
    (forall (vs : list dval) (pos1 : nat) (g1' l1' : denv),
     drun fapp nat RandExt.rext GoWrap.w_uniformRandomTensor fuel1 depth1 [DF l; DF u; dnats ds1] pos =
     DRet nat vs pos1 g1' l1' ->
     pos1 = pos + prodn ds1 /\
     (exists (t2 : tensor A) (g2 l2 : denv),
        normalRandomTensor m s ds2 pos1 = Some t2 /\
        drun fapp nat RandExt.rext GoWrap.w_normalRandomTensor fuel2 depth2 [DF m; DF s; dnats ds2] pos1 =
        DRet nat [dnats (dims t2); emb (data t2)] (pos + prodn ds1 + prodn ds2) g2 l2 /\
        flat (data t1) =
        map (fun k : nat => sadd (smul (srnd false (pos + k)) (ssub u l)) l) (seq 0 (prodn ds1)) /\
        flat (data t2) =
        map (fun k : nat => sadd (smul (srnd true (pos + prodn ds1 + k)) s) m) (seq 0 (prodn ds2)))).
Proof. exact @DataRandP.uniform_then_normal_draws. Qed.
Print Assumptions consecutive_random_tensors_use_disjoint_draws.

Theorem tensorInitConf_is_CPU_with_tracking :
  forall (A : Type) (SA : Scalar A) (fltb fleb : A -> A -> bool)
    (lib : string -> list dval -> heap -> option (list dval * heap)) (fuel depth : nat) 
    (h : heap),
  CompTensorP.outcome
    (drun cfapp heap (cextI fltb fleb lib) GoComp.c_initializers_tensorInitConf fuel depth [] h) =
  Some ([CompInitE2EP.initConf], h).
Proof. exact @CompInitE2EP.tensorInitConf_run. Qed.
Print Assumptions tensorInitConf_is_CPU_with_tracking.

Theorem XavierUniform_Init_end_to_end :
  forall (A : Type) (SA : Scalar A) (fltb fleb : A -> A -> bool)
    (lib : string -> list dval -> heap -> option (list dval * heap)) (fuel depth : nat) 
    (fi fo : Z) (sh : dval) (h : heap),
  (0 <= fi + fo)%Z ->
  let r := sqrtOver 6 (fi + fo) in
  CompTensorP.isCall
    (drun cfapp heap (cextI fltb fleb lib) GoComp.c_XavierUniform_Init fuel depth [DI fi; DI fo; sh] h)
    (lib "cputensor.RandU" [sh; DF (ssub (sconst 0 0) r); DF r; DB true] h).
Proof. exact @CompInitE2EP.XavierUniform_Init_e2e. Qed.
Print Assumptions XavierUniform_Init_end_to_end.

Theorem XavierNormal_Init_end_to_end :
  forall (A : Type) (SA : Scalar A) (fltb fleb : A -> A -> bool)
    (lib : string -> list dval -> heap -> option (list dval * heap)) (fuel depth : nat) 
    (fi fo : Z) (sh : dval) (h : heap),
  (0 <= fi + fo)%Z ->
  CompTensorP.isCall
    (drun cfapp heap (cextI fltb fleb lib) GoComp.c_XavierNormal_Init fuel depth [DI fi; DI fo; sh] h)
    (lib "cputensor.RandN" [sh; DF (sconst 0 0); DF (sqrtOver 2 (fi + fo)); DB true] h).
Proof. exact @CompInitE2EP.XavierNormal_Init_e2e. Qed.
Print Assumptions XavierNormal_Init_end_to_end.

Theorem HeUniform_Init_end_to_end :
  forall (A : Type) (SA : Scalar A) (fltb fleb : A -> A -> bool)
    (lib : string -> list dval -> heap -> option (list dval * heap)) (fuel depth : nat) 
    (f : Z) (sh : dval) (h : heap),
  (0 <= f)%Z ->
  let r := sqrtOver 6 f in
  CompTensorP.isCall
    (drun cfapp heap (cextI fltb fleb lib) GoComp.c_HeUniform_Init fuel depth [DI f; sh] h)
    (lib "cputensor.RandU" [sh; DF (ssub (sconst 0 0) r); DF r; DB true] h).
Proof. exact @CompInitE2EP.HeUniform_Init_e2e. Qed.
Print Assumptions HeUniform_Init_end_to_end.

Theorem HeNormal_Init_end_to_end :
  forall (A : Type) (SA : Scalar A) (fltb fleb : A -> A -> bool)
    (lib : string -> list dval -> heap -> option (list dval * heap)) (fuel depth : nat) 
    (f : Z) (sh : dval) (h : heap),
  (0 <= f)%Z ->
  CompTensorP.isCall
    (drun cfapp heap (cextI fltb fleb lib) GoComp.c_HeNormal_Init fuel depth [DI f; sh] h)
    (lib "cputensor.RandN" [sh; DF (sconst 0 0); DF (sqrtOver 2 f); DB true] h).
Proof. exact @CompInitE2EP.HeNormal_Init_e2e. Qed.
Print Assumptions HeNormal_Init_end_to_end.

Theorem Uniform_Init_end_to_end :
  forall (A : Type) (SA : Scalar A) (fltb fleb : A -> A -> bool)
    (lib : string -> list dval -> heap -> option (list dval * heap)) (fuel depth : nat) 
    (l u : A) (sh : dval) (h : heap),
  CompTensorP.isCall
    (drun cfapp heap (cextI fltb fleb lib) GoComp.c_Uniform_Init fuel depth [DF l; DF u; sh] h)
    (lib "cputensor.RandU" [sh; DF l; DF u; DB true] h).
Proof. exact @CompInitE2EP.Uniform_Init_e2e. Qed.
Print Assumptions Uniform_Init_end_to_end.

Theorem Normal_Init_end_to_end :
  forall (A : Type) (SA : Scalar A) (fltb fleb : A -> A -> bool)
    (lib : string -> list dval -> heap -> option (list dval * heap)) (fuel depth : nat) 
    (m s : A) (sh : dval) (h : heap),
  CompTensorP.isCall
    (drun cfapp heap (cextI fltb fleb lib) GoComp.c_Normal_Init fuel depth [DF m; DF s; sh] h)
    (lib "cputensor.RandN" [sh; DF m; DF s; DB true] h).
Proof. exact @CompInitE2EP.Normal_Init_e2e. Qed.
Print Assumptions Normal_Init_end_to_end.

Theorem Full_Init_end_to_end :
  forall (A : Type) (SA : Scalar A) (fltb fleb : A -> A -> bool)
    (lib : string -> list dval -> heap -> option (list dval * heap)) (fuel depth : nat) 
    (v : A) (sh : dval) (h : heap),
  CompTensorP.isCall (drun cfapp heap (cextI fltb fleb lib) GoComp.c_Full_Init fuel depth [DF v; sh] h)
    (lib "cputensor.Full" [sh; DF v; DB true] h).
Proof. exact @CompInitE2EP.Full_Init_e2e. Qed.
Print Assumptions Full_Init_end_to_end.

Theorem XavierUniform_Init_never_reaches_a_panic :
  forall (A : Type) (SA : Scalar A) (fltb fleb : A -> A -> bool)
    (lib : string -> list dval -> heap -> option (list dval * heap)) (fuel depth : nat) 
    (fi fo : Z) (sh : dval) (h : heap),
  (0 <= fi + fo)%Z ->
  drun cfapp heap (cextI fltb fleb lib) GoComp.c_XavierUniform_Init fuel depth [DI fi; DI fo; sh] h =
  DPanic heap ->
  let r := sqrtOver 6 (fi + fo) in
  CompTensorP.libFails 2 (lib "cputensor.RandU" [sh; DF (ssub (sconst 0 0) r); DF r; DB true] h).
Proof. exact @CompInitE2EP.XavierUniform_never_reaches_a_panic. Qed.
Print Assumptions XavierUniform_Init_never_reaches_a_panic.

Theorem Full_Init_never_reaches_a_panic :
  forall (A : Type) (SA : Scalar A) (fltb fleb : A -> A -> bool)
    (lib : string -> list dval -> heap -> option (list dval * heap)) (fuel depth : nat) 
    (v : A) (sh : dval) (h : heap),
  drun cfapp heap (cextI fltb fleb lib) GoComp.c_Full_Init fuel depth [DF v; sh] h = DPanic heap ->
  CompTensorP.libFails 2 (lib "cputensor.Full" [sh; DF v; DB true] h).
Proof. exact @CompInitE2EP.Full_never_reaches_a_panic. Qed.
Print Assumptions Full_Init_never_reaches_a_panic.

Theorem Normal_Init_never_reaches_a_panic :
  forall (A : Type) (SA : Scalar A) (fltb fleb : A -> A -> bool)
    (lib : string -> list dval -> heap -> option (list dval * heap)) (fuel depth : nat) 
    (m s : A) (sh : dval) (h : heap),
  drun cfapp heap (cextI fltb fleb lib) GoComp.c_Normal_Init fuel depth [DF m; DF s; sh] h = DPanic heap ->
  CompTensorP.libFails 2 (lib "cputensor.RandN" [sh; DF m; DF s; DB true] h).
Proof. exact @CompInitE2EP.Normal_never_reaches_a_panic. Qed.
Print Assumptions Normal_Init_never_reaches_a_panic.
