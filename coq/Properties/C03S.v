(* C03S — source tie by translation for the element-wise scalar kernels.
   Statements only (proofs: Proofs/Chain*P.v).  Model/Chains.v is REGENERATED from /repo's Go sources
   on every run by the translator harness/chainx (go/ast): the 22 function literals tensor/internal/cputensor/operators.go hands to the element-wise traversals, and the formula of Equals.
   Each theorem interprets the generated expression over an ARBITRARY scalar type (Model/ChainIR.v:
   evx / evr) and states that it IS the scalar function the model applies — operand order, constants,
   comparison operators and special values included.  The traversals that apply these kernels to every
   element (applyUnary/BinaryFuncOnTensor…, reduceByAssociativeFunc, the element generators) are not
   translated: they are tied by the correspondence check.  Closed under the global context. *)
From Coq Require Import String List ZArith Bool.
From Qeep Require Import Model.Scalar Model.Nd Model.Data Model.ChainIR.
From Qeep Require Model.Chains.
From Qeep Require Import Proofs.WiringP Proofs.ChainBaseP Proofs.ChainKernP.
Import ListNotations.
Local Open Scope string_scope.

Theorem scale_kernel_is_the_models_scalar_function :
  forall (A : Type) (SA : Scalar A) (u : A),
  unary_kernel Chains.k_scale "scale" [("u", u)] (unaryF (UScale u)).
Proof. exact @ChainKernP.k_scale_ok. Qed.
Print Assumptions scale_kernel_is_the_models_scalar_function.

Theorem pow_kernel_is_the_models_scalar_function :
  forall (A : Type) (SA : Scalar A) (u : A),
  unary_kernel Chains.k_pow "pow" [("u", u)] (unaryF (UPow u)).
Proof. exact @ChainKernP.k_pow_ok. Qed.
Print Assumptions pow_kernel_is_the_models_scalar_function.

Theorem exp_kernel_is_the_models_scalar_function :
  forall (A : Type) (SA : Scalar A), unary_kernel Chains.k_exp "exp" [] (unaryF UExpo).
Proof. exact @ChainKernP.k_exp_ok. Qed.
Print Assumptions exp_kernel_is_the_models_scalar_function.

Theorem log_kernel_is_the_models_scalar_function :
  forall (A : Type) (SA : Scalar A), unary_kernel Chains.k_log "log" [] (unaryF ULn).
Proof. exact @ChainKernP.k_log_ok. Qed.
Print Assumptions log_kernel_is_the_models_scalar_function.

Theorem sin_kernel_is_the_models_scalar_function :
  forall (A : Type) (SA : Scalar A), unary_kernel Chains.k_sin "sin" [] (unaryF USine).
Proof. exact @ChainKernP.k_sin_ok. Qed.
Print Assumptions sin_kernel_is_the_models_scalar_function.

Theorem cos_kernel_is_the_models_scalar_function :
  forall (A : Type) (SA : Scalar A), unary_kernel Chains.k_cos "cos" [] (unaryF UCosine).
Proof. exact @ChainKernP.k_cos_ok. Qed.
Print Assumptions cos_kernel_is_the_models_scalar_function.

Theorem tan_kernel_is_the_models_scalar_function :
  forall (A : Type) (SA : Scalar A), unary_kernel Chains.k_tan "tan" [] (unaryF UTang).
Proof. exact @ChainKernP.k_tan_ok. Qed.
Print Assumptions tan_kernel_is_the_models_scalar_function.

Theorem sinh_kernel_is_the_models_scalar_function :
  forall (A : Type) (SA : Scalar A), unary_kernel Chains.k_sinh "sinh" [] (unaryF USinH).
Proof. exact @ChainKernP.k_sinh_ok. Qed.
Print Assumptions sinh_kernel_is_the_models_scalar_function.

Theorem cosh_kernel_is_the_models_scalar_function :
  forall (A : Type) (SA : Scalar A), unary_kernel Chains.k_cosh "cosh" [] (unaryF UCosH).
Proof. exact @ChainKernP.k_cosh_ok. Qed.
Print Assumptions cosh_kernel_is_the_models_scalar_function.

Theorem tanh_kernel_is_the_models_scalar_function :
  forall (A : Type) (SA : Scalar A), unary_kernel Chains.k_tanh "tanh" [] (unaryF UTanH).
Proof. exact @ChainKernP.k_tanh_ok. Qed.
Print Assumptions tanh_kernel_is_the_models_scalar_function.

Theorem eq_kernel_is_the_models_scalar_function :
  forall (A : Type) (SA : Scalar A), binary_kernel Chains.k_eq "eq" (binaryF BiEq).
Proof. exact @ChainKernP.k_eq_ok. Qed.
Print Assumptions eq_kernel_is_the_models_scalar_function.

Theorem ne_kernel_is_the_models_scalar_function :
  forall (A : Type) (SA : Scalar A), binary_kernel Chains.k_ne "ne" (binaryF BiNe).
Proof. exact @ChainKernP.k_ne_ok. Qed.
Print Assumptions ne_kernel_is_the_models_scalar_function.

Theorem gt_kernel_is_the_models_scalar_function :
  forall (A : Type) (SA : Scalar A), binary_kernel Chains.k_gt "gt" (binaryF BiGt).
Proof. exact @ChainKernP.k_gt_ok. Qed.
Print Assumptions gt_kernel_is_the_models_scalar_function.

Theorem ge_kernel_is_the_models_scalar_function :
  forall (A : Type) (SA : Scalar A), binary_kernel Chains.k_ge "ge" (binaryF BiGe).
Proof. exact @ChainKernP.k_ge_ok. Qed.
Print Assumptions ge_kernel_is_the_models_scalar_function.

Theorem lt_kernel_is_the_models_scalar_function :
  forall (A : Type) (SA : Scalar A), binary_kernel Chains.k_lt "lt" (binaryF BiLt).
Proof. exact @ChainKernP.k_lt_ok. Qed.
Print Assumptions lt_kernel_is_the_models_scalar_function.

Theorem le_kernel_is_the_models_scalar_function :
  forall (A : Type) (SA : Scalar A), binary_kernel Chains.k_le "le" (binaryF BiLe).
Proof. exact @ChainKernP.k_le_ok. Qed.
Print Assumptions le_kernel_is_the_models_scalar_function.

Theorem elmax_kernel_is_the_models_scalar_function :
  forall (A : Type) (SA : Scalar A), binary_kernel Chains.k_elmax "elmax" (binaryF BiElMax).
Proof. exact @ChainKernP.k_elmax_ok. Qed.
Print Assumptions elmax_kernel_is_the_models_scalar_function.

Theorem elmin_kernel_is_the_models_scalar_function :
  forall (A : Type) (SA : Scalar A), binary_kernel Chains.k_elmin "elmin" (binaryF BiElMin).
Proof. exact @ChainKernP.k_elmin_ok. Qed.
Print Assumptions elmin_kernel_is_the_models_scalar_function.

Theorem add_kernel_is_the_models_scalar_function :
  forall (A : Type) (SA : Scalar A), binary_kernel Chains.k_add "add" (binaryF BiAdd).
Proof. exact @ChainKernP.k_add_ok. Qed.
Print Assumptions add_kernel_is_the_models_scalar_function.

Theorem sub_kernel_is_the_models_scalar_function :
  forall (A : Type) (SA : Scalar A), binary_kernel Chains.k_sub "sub" (binaryF BiSub).
Proof. exact @ChainKernP.k_sub_ok. Qed.
Print Assumptions sub_kernel_is_the_models_scalar_function.

Theorem mul_kernel_is_the_models_scalar_function :
  forall (A : Type) (SA : Scalar A), binary_kernel Chains.k_mul "mul" (binaryF BiMul).
Proof. exact @ChainKernP.k_mul_ok. Qed.
Print Assumptions mul_kernel_is_the_models_scalar_function.

Theorem div_kernel_is_the_models_scalar_function :
  forall (A : Type) (SA : Scalar A), binary_kernel Chains.k_div "div" (binaryF BiDiv).
Proof. exact @ChainKernP.k_div_ok. Qed.
Print Assumptions div_kernel_is_the_models_scalar_function.

Theorem equals_kernel_is_the_models_scalar_function :
  kf_body Chains.k_equals =
  XLet "o" (XCall1 "t.eq" (XV "u"))
    (XLet "n" (XCall0 "o.numElems") (XCmp ">=" (XCall0 "o.sum") (XCall1 "float64" (XV "n")))).
Proof. exact @ChainKernP.k_equals_ok. Qed.
Print Assumptions equals_kernel_is_the_models_scalar_function.

Theorem method_layer_of_elementwise_ops_is_as_modelled :
  same_wiring elementwise_methods.
Proof. exact @WiringP.wiring_elementwise. Qed.
Print Assumptions method_layer_of_elementwise_ops_is_as_modelled.
