(* C15 — Activation gradients equal the derivative of the activation, also in a chain.
   Statements only (proofs: Proofs/GradActP.v, Proofs/GradSoftmaxP.v; in-graph lifting:
   Proofs/GradChainP.v).  Over the reals, for every input shape and value, every
   upstream gradient gy, either variant rd of the Broadcast back edge:
   x is ANY tracked, not-spent node of ANY heap (a leaf or the result of earlier tracked
   operations — nothing is assumed about x's own back edges); hh is any heap with the structure
   of the heap the activation returned in which the output y holds its final gradient gy, the
   activation's internal nodes hold none and x holds an arbitrary prior gradient (what other
   consumers of x contributed).  Processing the activation's nodes with the model's own
   process_node, in the order back-propagation meets them, never fails, changes no other
   gradient and leaves on x a gradient of x's shape with
       gx[i] = prior[i] + gy[i] * D(x[i]),
   D = 1 - tanh^2 (Tanh); logistic*(1-logistic) at every input including 0 (Sigmoid; the Pow(0)
   ones-like constant contributes exactly zero, fix F4); reluD: 1 above the equality threshold,
   0 below minus the threshold, 1/2 at exactly 0 (Relu); leakyD m: 1, m, (1+m)/2 (LeakyRelu);
   Softmax along any dimension dim of any rank: p_i * (g_i - rdc * Σ_k p_k * g_k) with rdc = 1 for
   the summing Broadcast rule the property demands and 1/n for the pinned averaging rule (known
   finding D2).  Inputs with 0 < |x| <= threshold (1e-240) get the tie value: known finding D10.
   IN ANY GRAPH (Proofs/GradChainP.v): H is any heap that extends the activation's heap by ANY later
   operations (prefS), r any tracked root above y, no node outside the activation has a back edge to its
   internal nodes (no_outside_edge; they are unnamed).  Then back-propagation from r (bp_topo) meets
   the activation's nodes as ONE contiguous block [y; internals...] of its order, in the order used
   above, whether or not x was visited before (the ..._nodes_are_a_block_of_the_order theorems), and the FINAL
   gradient of x is
       gx[i] = prior[i] + Σ contributions of x's consumers OUTSIDE the activation + gy[i] * D(x[i])
   with gy the FINAL gradient of y (the ..._gradient_in_any_graph theorems), for an arbitrary prior on x.  Instances:
   x = Scale(leaf), y = act(x), root = Scale(y); and x with a second consumer created after the
   activation (the outside term is non-zero). *)
From Coq Require Import List ZArith Bool Reals.
From Qeep Require Import Model.Scalar Model.Nd Model.Data Model.Api Model.Grad Model.Backprop Model.Components.
From Qeep Require Import Proofs.NdP Proofs.BackpropP Spec.RScalar Spec.VjpSpec Proofs.VjpElemP.
From Qeep Require Proofs.GradActP Proofs.GradSoftmaxP Proofs.GradChainP Proofs.ConstsP Model.Consts.
Import ListNotations.

Theorem tanh_gradient :
  forall (thr : R) (draw : bool -> nat -> R) (rd : bred) (h h1 hh : @heap R) 
    (x y : nat) (name : option nat) (xv gy : tensor R) (log : list (nat * tensor R)),
  @valOf R h x = @Some (tensor R) xv ->
  @wf R xv ->
  @trackedOf R h x = true ->
  @dirtyOf R h x = false ->
  @tanh_forward R (R_scalar thr draw) h [@Some nat x] name = (h1, @Ok nat y) ->
  @sameS R h1 hh ->
  @gradOf R hh y = @Some (tensor R) gy ->
  @wf R gy ->
  @dims R gy = @dims R xv ->
  GradActP.prior_ok (@dims R xv) (@gradOf R hh x) ->
  exists (hh' : @heap R) (gx : tensor R),
    @fold_left (@heap R * list (nat * tensor R) * res unit) nat
      (@process_node R (R_scalar thr draw) rd (fun (_ : option nat) (g : tensor R) => g)) [y]
      (hh, log, @Ok unit tt) = (hh', (y, gy) :: log, @Ok unit tt) /\
    @sameS R hh hh' /\
    (forall n : nat, n <> x -> @gradOf R hh' n = @gradOf R hh n) /\
    @gradOf R hh' x = @Some (tensor R) gx /\
    @dims R gx = @dims R xv /\
    @wf R gx /\
    (forall idx : list nat,
     validIdx (@dims R xv) idx ->
     elt gx idx = GradActP.prior (@gradOf R hh x) idx + elt gy idx * (1 - tanh (elt xv idx) ^ 2)).
Proof. exact @GradActP.tanh_grad. Qed.
Print Assumptions tanh_gradient.

Theorem relu_gradient :
  forall (thr : R) (draw : bool -> nat -> R) (rd : bred) (h h1 hh : @heap R) 
    (x y : nat) (name : option nat) (xv gy : tensor R) (log : list (nat * tensor R)),
  0 <= thr ->
  @valOf R h x = @Some (tensor R) xv ->
  @wf R xv ->
  @trackedOf R h x = true ->
  @dirtyOf R h x = false ->
  @relu_forward R (R_scalar thr draw) h [@Some nat x] name = (h1, @Ok nat y) ->
  let z0 := @length (@node R) h in
  @sameS R h1 hh ->
  @gradOf R hh y = @Some (tensor R) gy ->
  @wf R gy ->
  @dims R gy = @dims R xv ->
  @gradOf R hh z0 = @None (tensor R) ->
  GradActP.prior_ok (@dims R xv) (@gradOf R hh x) ->
  exists (hh' : @heap R) (gx gz : tensor R),
    @fold_left (@heap R * list (nat * tensor R) * res unit) nat
      (@process_node R (R_scalar thr draw) rd (fun (_ : option nat) (g : tensor R) => g)) [
      y; z0] (hh, log, @Ok unit tt) = (hh', (z0, gz) :: (y, gy) :: log, @Ok unit tt) /\
    @sameS R hh hh' /\
    (forall n : nat, n <> x -> n <> z0 -> @gradOf R hh' n = @gradOf R hh n) /\
    @gradOf R hh' x = @Some (tensor R) gx /\
    @dims R gx = @dims R xv /\
    @wf R gx /\
    (forall idx : list nat,
     validIdx (@dims R xv) idx ->
     let p := GradActP.prior (@gradOf R hh x) idx in
     elt gx idx = p + elt gy idx * GradActP.reluD thr (elt xv idx) /\
     (thr < elt xv idx -> elt gx idx = p + elt gy idx * 1) /\
     (elt xv idx < - thr -> elt gx idx = p + elt gy idx * 0) /\
     (elt xv idx = 0 -> elt gx idx = p + elt gy idx * / 2)).
Proof. exact @GradActP.relu_grad. Qed.
Print Assumptions relu_gradient.

Theorem leaky_relu_gradient :
  forall (thr : R) (draw : bool -> nat -> R) (rd : bred) (h h1 hh : @heap R) 
    (m : R) (x y : nat) (name : option nat) (xv gy : tensor R) (log : list (nat * tensor R)),
  0 <= thr ->
  @valOf R h x = @Some (tensor R) xv ->
  @wf R xv ->
  @trackedOf R h x = true ->
  @dirtyOf R h x = false ->
  @leaky_forward R (R_scalar thr draw) h m [@Some nat x] name = (h1, @Ok nat y) ->
  let a := @length (@node R) h in
  @sameS R h1 hh ->
  @gradOf R hh y = @Some (tensor R) gy ->
  @wf R gy ->
  @dims R gy = @dims R xv ->
  (forall k : nat, (k < 6)%nat -> @gradOf R hh (a + k) = @None (tensor R)) ->
  GradActP.prior_ok (@dims R xv) (@gradOf R hh x) ->
  exists (hh' : @heap R) (gx : tensor R) (lg : list (nat * tensor R)),
    @fold_left (@heap R * list (nat * tensor R) * res unit) nat
      (@process_node R (R_scalar thr draw) rd (fun (_ : option nat) (g : tensor R) => g))
      [y; (a + 5)%nat; (a + 3)%nat; (a + 2)%nat; (a + 4)%nat; (a + 1)%nat; a] (
      hh, log, @Ok unit tt) = (hh', lg ++ log, @Ok unit tt) /\
    @map (nat * tensor R) nat (@fst nat (tensor R)) lg =
    [a; (a + 1)%nat; (a + 4)%nat; (a + 2)%nat; (a + 3)%nat; (a + 5)%nat; y] /\
    @sameS R hh hh' /\
    (forall n : nat, n <> x -> (n < a)%nat \/ (a + 6 <= n)%nat -> @gradOf R hh' n = @gradOf R hh n) /\
    @gradOf R hh' x = @Some (tensor R) gx /\
    @dims R gx = @dims R xv /\
    @wf R gx /\
    (forall idx : list nat,
     validIdx (@dims R xv) idx ->
     let p := GradActP.prior (@gradOf R hh x) idx in
     elt gx idx = p + elt gy idx * GradActP.leakyD thr m (elt xv idx) /\
     (thr < elt xv idx -> elt gx idx = p + elt gy idx * 1) /\
     (elt xv idx < - thr -> elt gx idx = p + elt gy idx * m) /\
     (elt xv idx = 0 -> elt gx idx = p + elt gy idx * ((1 + m) / 2))).
Proof. exact @GradActP.leaky_grad. Qed.
Print Assumptions leaky_relu_gradient.

Theorem sigmoid_gradient :
  forall (thr : R) (draw : bool -> nat -> R) (rd : bred) (h h1 hh : @heap R) 
    (x y : nat) (name : option nat) (xv gy : tensor R) (log : list (nat * tensor R)),
  @valOf R h x = @Some (tensor R) xv ->
  @wf R xv ->
  @trackedOf R h x = true ->
  @dirtyOf R h x = false ->
  @sigmoid_forward R (R_scalar thr draw) h [@Some nat x] name = (h1, @Ok nat y) ->
  let a := @length (@node R) h in
  @sameS R h1 hh ->
  @gradOf R hh y = @Some (tensor R) gy ->
  @wf R gy ->
  @dims R gy = @dims R xv ->
  (forall k : nat, (k < 6)%nat -> @gradOf R hh (a + k) = @None (tensor R)) ->
  GradActP.prior_ok (@dims R xv) (@gradOf R hh x) ->
  exists (hh' : @heap R) (gx : tensor R) (lg : list (nat * tensor R)),
    @fold_left (@heap R * list (nat * tensor R) * res unit) nat
      (@process_node R (R_scalar thr draw) rd (fun (_ : option nat) (g : tensor R) => g))
      [y; (a + 5)%nat; (a + 4)%nat; (a + 2)%nat; (a + 1)%nat; (a + 3)%nat; a] (
      hh, log, @Ok unit tt) = (hh', lg ++ log, @Ok unit tt) /\
    @map (nat * tensor R) nat (@fst nat (tensor R)) lg =
    [a; (a + 3)%nat; (a + 1)%nat; (a + 2)%nat; (a + 4)%nat; (a + 5)%nat; y] /\
    @sameS R hh hh' /\
    (forall n : nat, n <> x -> (n < a)%nat \/ (a + 6 <= n)%nat -> @gradOf R hh' n = @gradOf R hh n) /\
    @gradOf R hh' x = @Some (tensor R) gx /\
    @dims R gx = @dims R xv /\
    @wf R gx /\
    (forall idx : list nat,
     validIdx (@dims R xv) idx ->
     elt gx idx =
     GradActP.prior (@gradOf R hh x) idx +
     elt gy idx * (GradActP.logistic (elt xv idx) * (1 - GradActP.logistic (elt xv idx)))).
Proof. exact @GradActP.sigmoid_grad. Qed.
Print Assumptions sigmoid_gradient.

Theorem softmax_gradient_any_dim :
  forall (thr : R) (draw : bool -> nat -> R) (rd : bred) (h h1 hh : @heap R) 
    (dim x y : nat) (name : option nat) (xv gy : tensor R) (log : list (nat * tensor R)),
  @valOf R h x = @Some (tensor R) xv ->
  @wf R xv ->
  @trackedOf R h x = true ->
  @dirtyOf R h x = false ->
  @softmax_forward R (R_scalar thr draw) h dim [@Some nat x] name = (h1, @Ok nat y) ->
  let a := @length (@node R) h in
  let n := @nth nat dim (@dims R xv) 0%nat in
  @sameS R h1 hh ->
  @gradOf R hh y = @Some (tensor R) gy ->
  @wf R gy ->
  @dims R gy = @dims R xv ->
  (forall k : nat, (k < 5)%nat -> @gradOf R hh (a + k) = @None (tensor R)) ->
  GradActP.prior_ok (@dims R xv) (@gradOf R hh x) ->
  exists (yv : tensor R) (hh' : @heap R) (gx : tensor R) (lg : list (nat * tensor R)),
    @valOf R h1 y = @Some (tensor R) yv /\
    @dims R yv = @dims R xv /\
    (forall i : list nat,
     validIdx (@dims R xv) i ->
     elt yv i =
     exp (elt xv i) / VjpGatherP.sumN n (fun k : nat => exp (elt xv (SoftmaxP.setAt dim k i)))) /\
    @fold_left (@heap R * list (nat * tensor R) * res unit) nat
      (@process_node R (R_scalar thr draw) rd (fun (_ : option nat) (g : tensor R) => g))
      [y; (a + 4)%nat; (a + 2)%nat; (a + 1)%nat; (a + 3)%nat; a] (hh, log, @Ok unit tt) =
    (hh', lg ++ log, @Ok unit tt) /\
    @map (nat * tensor R) nat (@fst nat (tensor R)) lg =
    [a; (a + 3)%nat; (a + 1)%nat; (a + 2)%nat; (a + 4)%nat; y] /\
    @sameS R hh hh' /\
    (forall m : nat, m <> x -> (m < a)%nat \/ (a + 5 <= m)%nat -> @gradOf R hh' m = @gradOf R hh m) /\
    @gradOf R hh' x = @Some (tensor R) gx /\
    @dims R gx = @dims R xv /\
    @wf R gx /\
    (forall i : list nat,
     validIdx (@dims R xv) i ->
     elt gx i =
     GradActP.prior (@gradOf R hh x) i +
     elt yv i *
     (elt gy i -
      VjpGatherP.rdc rd n *
      VjpGatherP.sumN n
        (fun k : nat => elt yv (SoftmaxP.setAt dim k i) * elt gy (SoftmaxP.setAt dim k i)))).
Proof. exact @GradSoftmaxP.softmax_grad. Qed.
Print Assumptions softmax_gradient_any_dim.

Theorem tanh_derivative_identity :
  forall x : R, / cosh x ^ 2 = 1 - tanh x ^ 2.
Proof. exact @GradActP.tanh_deriv_identity. Qed.
Print Assumptions tanh_derivative_identity.

Theorem sigmoid_derivative_identity :
  forall x : R,
  -1 * / (1 + exp (- x)) ^ 2 * exp (- x) * -1 = GradActP.logistic x * (1 - GradActP.logistic x).
Proof. exact @GradActP.sigmoid_deriv_identity. Qed.
Print Assumptions sigmoid_derivative_identity.

Theorem tanh_gradient_instance :
  forall (draw : bool -> nat -> R) (rd : bred),
  exists (hh' : @heap R) (gx : tensor R),
    @fold_left (@heap R * list (nat * tensor R) * res unit) nat
      (@process_node R (R_scalar 0 draw) rd (fun (_ : option nat) (g : tensor R) => g)) [2%nat]
      (@setGrad R (GradActP.GradActExamples.th1 draw) 2 (@Some (tensor R) GradActP.GradActExamples.exg),
       [], @Ok unit tt) = (hh', [(2%nat, GradActP.GradActExamples.exg)], @Ok unit tt) /\
    @gradOf R hh' 1 = @Some (tensor R) gx /\
    elt gx [0%nat] = 5 * (1 - tanh (2 * 3) ^ 2) /\ elt gx [1%nat] = 7 * (1 - tanh (2 * -4) ^ 2).
Proof. exact @GradActP.GradActExamples.tanh_grad_ex. Qed.
Print Assumptions tanh_gradient_instance.

Theorem relu_order_instance :
  forall draw : bool -> nat -> R,
  topoOrder (GradActP.GradActExamples.rh1 draw) 3 = [3%nat; 2%nat; 1%nat; 0%nat].
Proof. exact @GradActP.GradActExamples.relu_order_ex. Qed.
Print Assumptions relu_order_instance.

Theorem relu_gradient_instance :
  forall (draw : bool -> nat -> R) (rd : bred),
  exists (hh' : @heap R) (gx gz : tensor R),
    @fold_left (@heap R * list (nat * tensor R) * res unit) nat
      (@process_node R (R_scalar 0 draw) rd (fun (_ : option nat) (g : tensor R) => g)) [
      3%nat; 2%nat]
      (@setGrad R (GradActP.GradActExamples.rh1 draw) 3 (@Some (tensor R) GradActP.GradActExamples.exg),
       [], @Ok unit tt) = (hh', [(2%nat, gz); (3%nat, GradActP.GradActExamples.exg)], @Ok unit tt) /\
    @gradOf R hh' 1 = @Some (tensor R) gx /\ elt gx [0%nat] = 5 /\ elt gx [1%nat] = 0.
Proof. exact @GradActP.GradActExamples.relu_grad_ex. Qed.
Print Assumptions relu_gradient_instance.

Theorem relu_tie_instance :
  forall (draw : bool -> nat -> R) (rd : bred),
  exists (hh' : @heap R) (gx gz : tensor R),
    @fold_left (@heap R * list (nat * tensor R) * res unit) nat
      (@process_node R (R_scalar 0 draw) rd (fun (_ : option nat) (g : tensor R) => g)) [
      2%nat; 1%nat]
      (@setGrad R (GradActP.GradActExamples.zh1 draw) 2 (@Some (tensor R) GradActP.GradActExamples.exg),
       [], @Ok unit tt) = (hh', [(1%nat, gz); (2%nat, GradActP.GradActExamples.exg)], @Ok unit tt) /\
    @gradOf R hh' 0 = @Some (tensor R) gx /\ elt gx [0%nat] = 5 / 2 /\ elt gx [1%nat] = 7 / 2.
Proof. exact @GradActP.GradActExamples.relu_tie_ex. Qed.
Print Assumptions relu_tie_instance.

Theorem leaky_order_instance :
  forall (draw : bool -> nat -> R) (m : R),
  topoOrder (GradActP.GradActExamples.lh1 draw m) 8 =
  [8%nat; 7%nat; 5%nat; 4%nat; 6%nat; 3%nat; 2%nat; 1%nat; 0%nat].
Proof. exact @GradActP.GradActExamples.leaky_order_ex. Qed.
Print Assumptions leaky_order_instance.

Theorem leaky_gradient_instance :
  forall (draw : bool -> nat -> R) (rd : bred) (m : R),
  exists (hh' : @heap R) (gx : tensor R) (lg : list (nat * tensor R)),
    @fold_left (@heap R * list (nat * tensor R) * res unit) nat
      (@process_node R (R_scalar 0 draw) rd (fun (_ : option nat) (g : tensor R) => g))
      [8%nat; 7%nat; 5%nat; 4%nat; 6%nat; 3%nat; 2%nat]
      (@setGrad R (GradActP.GradActExamples.lh1 draw m) 8
         (@Some (tensor R) GradActP.GradActExamples.exg), [], @Ok unit tt) = (
    hh', lg, @Ok unit tt) /\
    @gradOf R hh' 1 = @Some (tensor R) gx /\ elt gx [0%nat] = 5 /\ elt gx [1%nat] = 7 * m.
Proof. exact @GradActP.GradActExamples.leaky_grad_ex. Qed.
Print Assumptions leaky_gradient_instance.

Theorem sigmoid_order_instance :
  forall draw : bool -> nat -> R,
  topoOrder (GradActP.GradActExamples.sh1 draw) 8 =
  [8%nat; 7%nat; 6%nat; 4%nat; 3%nat; 5%nat; 2%nat; 1%nat; 0%nat].
Proof. exact @GradActP.GradActExamples.sigmoid_order_ex. Qed.
Print Assumptions sigmoid_order_instance.

Theorem sigmoid_gradient_instance :
  forall (draw : bool -> nat -> R) (rd : bred),
  exists (hh' : @heap R) (gx : tensor R) (lg : list (nat * tensor R)),
    @fold_left (@heap R * list (nat * tensor R) * res unit) nat
      (@process_node R (R_scalar 0 draw) rd (fun (_ : option nat) (g : tensor R) => g))
      [8%nat; 7%nat; 6%nat; 4%nat; 3%nat; 5%nat; 2%nat]
      (@setGrad R (GradActP.GradActExamples.sh1 draw) 8 (@Some (tensor R) GradActP.GradActExamples.exg),
       [], @Ok unit tt) = (hh', lg, @Ok unit tt) /\
    @gradOf R hh' 1 = @Some (tensor R) gx /\
    elt gx [0%nat] = 5 * (GradActP.logistic (2 * 3) * (1 - GradActP.logistic (2 * 3))) /\
    elt gx [1%nat] = 7 * (GradActP.logistic (2 * -4) * (1 - GradActP.logistic (2 * -4))).
Proof. exact @GradActP.GradActExamples.sigmoid_grad_ex. Qed.
Print Assumptions sigmoid_gradient_instance.

Theorem later_nodes_do_not_matter :
  forall (A : Type) (SA : Scalar A) (rd : bred) (h1 H : heap) (l : list nat)
    (log : list (nat * tensor A)) (hT' : heap) (log' : list (nat * tensor A)) 
    (r : res unit),
  GradChainP.prefS h1 H ->
  (forall c : nat,
   In c l ->
   (c < length h1)%nat /\
   (forall e : nat * rule, In e (edgesOf h1 c) -> GradChainP.edge_local (length h1) e)) ->
  fold_left (process_node rd (fun (_ : option nat) (g : tensor A) => g)) l
    (firstn (length h1) H, log, Ok tt) = (hT', log', r) ->
  exists H' : heap,
    fold_left (process_node rd (fun (_ : option nat) (g : tensor A) => g)) l (H, log, Ok tt) =
    (H', log', r) /\
    sameS H H' /\
    (forall i : nat, (i < length h1)%nat -> gradOf H' i = gradOf hT' i) /\
    (forall i : nat, (length h1 <= i)%nat -> gradOf H' i = gradOf H i).
Proof. exact @GradChainP.trunc_transfer. Qed.
Print Assumptions later_nodes_do_not_matter.

Theorem tanh_nodes_are_a_block_of_the_order :
  forall (A : Type) (SA : Scalar A) (h h1 H : heap) (x y : nat) (name : option nat) (r : nat),
  tanh_forward h [Some x] name = (h1, Ok y) ->
  trackedOf h x = true ->
  dirtyOf h x = false ->
  GradChainP.prefS h1 H -> wf_heap H -> In y (topoOrder H r) -> GradChainP.topo_block H r x y [].
Proof. exact @GradChainP.tanh_block. Qed.
Print Assumptions tanh_nodes_are_a_block_of_the_order.

Theorem relu_nodes_are_a_block_of_the_order :
  forall (A : Type) (SA : Scalar A) (h h1 H : heap) (x y : nat) (name : option nat) (r : nat),
  relu_forward h [Some x] name = (h1, Ok y) ->
  trackedOf h x = true ->
  dirtyOf h x = false ->
  GradChainP.prefS h1 H ->
  wf_heap H ->
  GradChainP.no_outside_edge H y [length h] ->
  In y (topoOrder H r) -> GradChainP.topo_block H r x y [length h].
Proof. exact @GradChainP.relu_block. Qed.
Print Assumptions relu_nodes_are_a_block_of_the_order.

Theorem leaky_nodes_are_a_block_of_the_order :
  forall (A : Type) (SA : Scalar A) (h h1 H : heap) (m : A) (x y : nat) (name : option nat)
    (xv : tensor A) (r : nat),
  leaky_forward h m [Some x] name = (h1, Ok y) ->
  valOf h x = Some xv ->
  wf xv ->
  trackedOf h x = true ->
  dirtyOf h x = false ->
  let a := length h in
  GradChainP.prefS h1 H ->
  wf_heap H ->
  GradChainP.no_outside_edge H y [(a + 5)%nat; (a + 3)%nat; (a + 2)%nat; (a + 4)%nat; (a + 1)%nat; a] ->
  In y (topoOrder H r) ->
  GradChainP.topo_block H r x y [(a + 5)%nat; (a + 3)%nat; (a + 2)%nat; (a + 4)%nat; (a + 1)%nat; a].
Proof. exact @GradChainP.leaky_block. Qed.
Print Assumptions leaky_nodes_are_a_block_of_the_order.

Theorem sigmoid_nodes_are_a_block_of_the_order :
  forall (A : Type) (SA : Scalar A) (h h1 H : heap) (x y : nat) (name : option nat) 
    (xv : tensor A) (r : nat),
  sigmoid_forward h [Some x] name = (h1, Ok y) ->
  valOf h x = Some xv ->
  wf xv ->
  trackedOf h x = true ->
  dirtyOf h x = false ->
  let a := length h in
  GradChainP.prefS h1 H ->
  wf_heap H ->
  GradChainP.no_outside_edge H y [(a + 5)%nat; (a + 4)%nat; (a + 2)%nat; (a + 1)%nat; (a + 3)%nat; a] ->
  In y (topoOrder H r) ->
  GradChainP.topo_block H r x y [(a + 5)%nat; (a + 4)%nat; (a + 2)%nat; (a + 1)%nat; (a + 3)%nat; a].
Proof. exact @GradChainP.sigmoid_block. Qed.
Print Assumptions sigmoid_nodes_are_a_block_of_the_order.

Theorem softmax_nodes_are_a_block_of_the_order :
  forall (A : Type) (SA : Scalar A) (h h1 H : heap) (dim x y : nat) (name : option nat) 
    (xv : tensor A) (r : nat),
  softmax_forward h dim [Some x] name = (h1, Ok y) ->
  valOf h x = Some xv ->
  wf xv ->
  trackedOf h x = true ->
  dirtyOf h x = false ->
  let a := length h in
  GradChainP.prefS h1 H ->
  wf_heap H ->
  GradChainP.no_outside_edge H y [(a + 4)%nat; (a + 2)%nat; (a + 1)%nat; (a + 3)%nat; a] ->
  In y (topoOrder H r) ->
  GradChainP.topo_block H r x y [(a + 4)%nat; (a + 2)%nat; (a + 1)%nat; (a + 3)%nat; a].
Proof. exact @GradChainP.softmax_block. Qed.
Print Assumptions softmax_nodes_are_a_block_of_the_order.

Theorem tanh_gradient_in_any_graph :
  forall (thr : R) (draw : bool -> nat -> R) (rd : bred) (h h1 H H' : @heap R) 
    (x y : nat) (name : option nat) (xv : tensor R) (r : nat) (log : list (nat * tensor R))
    (gy : tensor R),
  @valOf R h x = @Some (tensor R) xv ->
  @wf R xv ->
  @trackedOf R h x = true ->
  @dirtyOf R h x = false ->
  @tanh_forward R (R_scalar thr draw) h [@Some nat x] name = (h1, @Ok nat y) ->
  @GradChainP.prefS R h1 H ->
  @rules_own R H ->
  @wf_heap R H ->
  @In nat y (@topoOrder R H r) ->
  GradActP.prior_ok (@dims R xv) (@gradOf R H x) ->
  @bp_topo R (R_scalar thr draw) rd (fun (_ : option nat) (g : tensor R) => g) H r =
  (H', log, @Ok unit tt) ->
  @gradOf R H' y = @Some (tensor R) gy ->
  @wf R gy ->
  @dims R gy = @dims R xv ->
  (forall g : tensor R,
   @In (tensor R) g (@contributions R (R_scalar thr draw) rd H' H (@GradChainP.outsideOf R H r y []) x) ->
   @wf R g /\ @dims R g = @dims R xv) ->
  exists gx : tensor R,
    @gradOf R H' x = @Some (tensor R) gx /\
    @dims R gx = @dims R xv /\
    @wf R gx /\
    (forall idx : list nat,
     validIdx (@dims R xv) idx ->
     elt gx idx =
     GradActP.prior (@gradOf R H x) idx +
     GradChainP.sumC (@contributions R (R_scalar thr draw) rd H' H (@GradChainP.outsideOf R H r y []) x)
       idx + elt gy idx * (1 - tanh (elt xv idx) ^ 2)).
Proof. exact @GradChainP.tanh_grad_in_graph. Qed.
Print Assumptions tanh_gradient_in_any_graph.

Theorem relu_gradient_in_any_graph :
  forall (thr : R) (draw : bool -> nat -> R) (rd : bred) (h h1 H H' : @heap R) 
    (x y : nat) (name : option nat) (xv : tensor R) (r : nat) (log : list (nat * tensor R))
    (gy : tensor R),
  0 <= thr ->
  @valOf R h x = @Some (tensor R) xv ->
  @wf R xv ->
  @trackedOf R h x = true ->
  @dirtyOf R h x = false ->
  @relu_forward R (R_scalar thr draw) h [@Some nat x] name = (h1, @Ok nat y) ->
  let z0 := @length (@node R) h in
  @GradChainP.prefS R h1 H ->
  @rules_own R H ->
  @wf_heap R H ->
  @GradChainP.no_outside_edge R H y [z0] ->
  @In nat y (@topoOrder R H r) ->
  @gradOf R H z0 = @None (tensor R) ->
  GradActP.prior_ok (@dims R xv) (@gradOf R H x) ->
  @bp_topo R (R_scalar thr draw) rd (fun (_ : option nat) (g : tensor R) => g) H r =
  (H', log, @Ok unit tt) ->
  @gradOf R H' y = @Some (tensor R) gy ->
  @wf R gy ->
  @dims R gy = @dims R xv ->
  (forall g : tensor R,
   @In (tensor R) g
     (@contributions R (R_scalar thr draw) rd H' H (@GradChainP.outsideOf R H r y [z0]) x) ->
   @wf R g /\ @dims R g = @dims R xv) ->
  exists gx : tensor R,
    @gradOf R H' x = @Some (tensor R) gx /\
    @dims R gx = @dims R xv /\
    @wf R gx /\
    (forall idx : list nat,
     validIdx (@dims R xv) idx ->
     let p :=
       GradActP.prior (@gradOf R H x) idx +
       GradChainP.sumC
         (@contributions R (R_scalar thr draw) rd H' H (@GradChainP.outsideOf R H r y [z0]) x) idx in
     elt gx idx = p + elt gy idx * GradActP.reluD thr (elt xv idx) /\
     (thr < elt xv idx -> elt gx idx = p + elt gy idx * 1) /\
     (elt xv idx < - thr -> elt gx idx = p + elt gy idx * 0) /\
     (elt xv idx = 0 -> elt gx idx = p + elt gy idx * / 2)).
Proof. exact @GradChainP.relu_grad_in_graph. Qed.
Print Assumptions relu_gradient_in_any_graph.

Theorem leaky_gradient_in_any_graph :
  forall (thr : R) (draw : bool -> nat -> R) (rd : bred) (h h1 H H' : @heap R) 
    (m : R) (x y : nat) (name : option nat) (xv : tensor R) (r : nat) (log : list (nat * tensor R))
    (gy : tensor R),
  0 <= thr ->
  @valOf R h x = @Some (tensor R) xv ->
  @wf R xv ->
  @trackedOf R h x = true ->
  @dirtyOf R h x = false ->
  @leaky_forward R (R_scalar thr draw) h m [@Some nat x] name = (h1, @Ok nat y) ->
  let a := @length (@node R) h in
  let ints := [(a + 5)%nat; (a + 3)%nat; (a + 2)%nat; (a + 4)%nat; (a + 1)%nat; a] in
  @GradChainP.prefS R h1 H ->
  @rules_own R H ->
  @wf_heap R H ->
  @GradChainP.no_outside_edge R H y ints ->
  @In nat y (@topoOrder R H r) ->
  (forall n : nat, @In nat n ints -> @gradOf R H n = @None (tensor R)) ->
  GradActP.prior_ok (@dims R xv) (@gradOf R H x) ->
  @bp_topo R (R_scalar thr draw) rd (fun (_ : option nat) (g : tensor R) => g) H r =
  (H', log, @Ok unit tt) ->
  @gradOf R H' y = @Some (tensor R) gy ->
  @wf R gy ->
  @dims R gy = @dims R xv ->
  (forall g : tensor R,
   @In (tensor R) g
     (@contributions R (R_scalar thr draw) rd H' H (@GradChainP.outsideOf R H r y ints) x) ->
   @wf R g /\ @dims R g = @dims R xv) ->
  exists gx : tensor R,
    @gradOf R H' x = @Some (tensor R) gx /\
    @dims R gx = @dims R xv /\
    @wf R gx /\
    (forall idx : list nat,
     validIdx (@dims R xv) idx ->
     let p :=
       GradActP.prior (@gradOf R H x) idx +
       GradChainP.sumC
         (@contributions R (R_scalar thr draw) rd H' H (@GradChainP.outsideOf R H r y ints) x) idx in
     elt gx idx = p + elt gy idx * GradActP.leakyD thr m (elt xv idx) /\
     (thr < elt xv idx -> elt gx idx = p + elt gy idx * 1) /\
     (elt xv idx < - thr -> elt gx idx = p + elt gy idx * m) /\
     (elt xv idx = 0 -> elt gx idx = p + elt gy idx * ((1 + m) / 2))).
Proof. exact @GradChainP.leaky_grad_in_graph. Qed.
Print Assumptions leaky_gradient_in_any_graph.

Theorem sigmoid_gradient_in_any_graph :
  forall (thr : R) (draw : bool -> nat -> R) (rd : bred) (h h1 H H' : @heap R) 
    (x y : nat) (name : option nat) (xv : tensor R) (r : nat) (log : list (nat * tensor R))
    (gy : tensor R),
  @valOf R h x = @Some (tensor R) xv ->
  @wf R xv ->
  @trackedOf R h x = true ->
  @dirtyOf R h x = false ->
  @sigmoid_forward R (R_scalar thr draw) h [@Some nat x] name = (h1, @Ok nat y) ->
  let a := @length (@node R) h in
  let ints := [(a + 5)%nat; (a + 4)%nat; (a + 2)%nat; (a + 1)%nat; (a + 3)%nat; a] in
  @GradChainP.prefS R h1 H ->
  @rules_own R H ->
  @wf_heap R H ->
  @GradChainP.no_outside_edge R H y ints ->
  @In nat y (@topoOrder R H r) ->
  (forall n : nat, @In nat n ints -> @gradOf R H n = @None (tensor R)) ->
  GradActP.prior_ok (@dims R xv) (@gradOf R H x) ->
  @bp_topo R (R_scalar thr draw) rd (fun (_ : option nat) (g : tensor R) => g) H r =
  (H', log, @Ok unit tt) ->
  @gradOf R H' y = @Some (tensor R) gy ->
  @wf R gy ->
  @dims R gy = @dims R xv ->
  (forall g : tensor R,
   @In (tensor R) g
     (@contributions R (R_scalar thr draw) rd H' H (@GradChainP.outsideOf R H r y ints) x) ->
   @wf R g /\ @dims R g = @dims R xv) ->
  exists gx : tensor R,
    @gradOf R H' x = @Some (tensor R) gx /\
    @dims R gx = @dims R xv /\
    @wf R gx /\
    (forall idx : list nat,
     validIdx (@dims R xv) idx ->
     elt gx idx =
     GradActP.prior (@gradOf R H x) idx +
     GradChainP.sumC
       (@contributions R (R_scalar thr draw) rd H' H (@GradChainP.outsideOf R H r y ints) x) idx +
     elt gy idx * (GradActP.logistic (elt xv idx) * (1 - GradActP.logistic (elt xv idx)))).
Proof. exact @GradChainP.sigmoid_grad_in_graph. Qed.
Print Assumptions sigmoid_gradient_in_any_graph.

Theorem softmax_gradient_in_any_graph :
  forall (thr : R) (draw : bool -> nat -> R) (rd : bred) (h h1 H H' : @heap R) 
    (dim x y : nat) (name : option nat) (xv : tensor R) (r : nat) (log : list (nat * tensor R))
    (gy : tensor R),
  @valOf R h x = @Some (tensor R) xv ->
  @wf R xv ->
  @trackedOf R h x = true ->
  @dirtyOf R h x = false ->
  @softmax_forward R (R_scalar thr draw) h dim [@Some nat x] name = (h1, @Ok nat y) ->
  let a := @length (@node R) h in
  let n := @nth nat dim (@dims R xv) 0%nat in
  let ints := [(a + 4)%nat; (a + 2)%nat; (a + 1)%nat; (a + 3)%nat; a] in
  @GradChainP.prefS R h1 H ->
  @rules_own R H ->
  @wf_heap R H ->
  @GradChainP.no_outside_edge R H y ints ->
  @In nat y (@topoOrder R H r) ->
  (forall c : nat, @In nat c ints -> @gradOf R H c = @None (tensor R)) ->
  GradActP.prior_ok (@dims R xv) (@gradOf R H x) ->
  @bp_topo R (R_scalar thr draw) rd (fun (_ : option nat) (g : tensor R) => g) H r =
  (H', log, @Ok unit tt) ->
  @gradOf R H' y = @Some (tensor R) gy ->
  @wf R gy ->
  @dims R gy = @dims R xv ->
  (forall g : tensor R,
   @In (tensor R) g
     (@contributions R (R_scalar thr draw) rd H' H (@GradChainP.outsideOf R H r y ints) x) ->
   @wf R g /\ @dims R g = @dims R xv) ->
  exists yv gx : tensor R,
    @valOf R H y = @Some (tensor R) yv /\
    @dims R yv = @dims R xv /\
    (forall i : list nat,
     validIdx (@dims R xv) i ->
     elt yv i =
     exp (elt xv i) / VjpGatherP.sumN n (fun k : nat => exp (elt xv (SoftmaxP.setAt dim k i)))) /\
    @gradOf R H' x = @Some (tensor R) gx /\
    @dims R gx = @dims R xv /\
    @wf R gx /\
    (forall i : list nat,
     validIdx (@dims R xv) i ->
     elt gx i =
     GradActP.prior (@gradOf R H x) i +
     GradChainP.sumC
       (@contributions R (R_scalar thr draw) rd H' H (@GradChainP.outsideOf R H r y ints) x) i +
     elt yv i *
     (elt gy i -
      VjpGatherP.rdc rd n *
      VjpGatherP.sumN n
        (fun k : nat => elt yv (SoftmaxP.setAt dim k i) * elt gy (SoftmaxP.setAt dim k i)))).
Proof. exact @GradChainP.softmax_grad_in_graph. Qed.
Print Assumptions softmax_gradient_in_any_graph.

Theorem tanh_in_graph_instance :
  forall (draw : bool -> nat -> R) (rd : bred),
  exists (H' : @heap R) (log : list (nat * tensor R)) (gy gx : tensor R),
    @bp_topo R (R_scalar 0 draw) rd (fun (_ : option nat) (g : tensor R) => g)
      (GradChainP.GradChainExamples.tH draw) 3 = (H', log, @Ok unit tt) /\
    @gradOf R H' 2 = @Some (tensor R) gy /\
    @gradOf R H' 1 = @Some (tensor R) gx /\
    elt gy [0%nat] = 3 /\
    elt gy [1%nat] = 3 /\
    elt gx [0%nat] = 3 * (1 - tanh (2 * 3) ^ 2) /\ elt gx [1%nat] = 3 * (1 - tanh (2 * -4) ^ 2).
Proof. exact @GradChainP.GradChainExamples.tanh_in_graph_ex. Qed.
Print Assumptions tanh_in_graph_instance.

Theorem tanh_two_consumers_instance :
  forall (draw : bool -> nat -> R) (rd : bred),
  @topoOrder R (GradChainP.GradChainExamples.dH draw) 6 =
  [6%nat; 5%nat; 3%nat; 4%nat; 2%nat; 1%nat; 0%nat] /\
  (exists (H' : @heap R) (log : list (nat * tensor R)) (gy gx : tensor R),
     @bp_topo R (R_scalar 0 draw) rd (fun (_ : option nat) (g : tensor R) => g)
       (GradChainP.GradChainExamples.dH draw) 6 = (H', log, @Ok unit tt) /\
     @gradOf R H' 2 = @Some (tensor R) gy /\
     @gradOf R H' 1 = @Some (tensor R) gx /\
     elt gy [0%nat] = 1 /\
     elt gy [1%nat] = 1 /\
     elt gx [0%nat] = 5 + 1 * (1 - tanh (2 * 3) ^ 2) /\ elt gx [1%nat] = 5 + 1 * (1 - tanh (2 * -4) ^ 2)).
Proof. exact @GradChainP.GradChainExamples.tanh_two_consumers_ex. Qed.
Print Assumptions tanh_two_consumers_instance.

Theorem relu_in_graph_instance :
  forall (draw : bool -> nat -> R) (rd : bred),
  exists (H' : @heap R) (log : list (nat * tensor R)) (gy gx : tensor R),
    @bp_topo R (R_scalar 0 draw) rd (fun (_ : option nat) (g : tensor R) => g)
      (GradChainP.GradChainExamples.rH draw) 4 = (H', log, @Ok unit tt) /\
    @gradOf R H' 3 = @Some (tensor R) gy /\
    @gradOf R H' 1 = @Some (tensor R) gx /\
    elt gy [0%nat] = 3 /\ elt gy [1%nat] = 3 /\ elt gx [0%nat] = 3 /\ elt gx [1%nat] = 0.
Proof. exact @GradChainP.GradChainExamples.relu_in_graph_ex. Qed.
Print Assumptions relu_in_graph_instance.

Theorem sigmoid_in_graph_instance :
  forall (draw : bool -> nat -> R) (rd : bred),
  exists (H' : @heap R) (log : list (nat * tensor R)) (gy gx : tensor R),
    @bp_topo R (R_scalar 0 draw) rd (fun (_ : option nat) (g : tensor R) => g)
      (GradChainP.GradChainExamples.sH draw) 9 = (H', log, @Ok unit tt) /\
    @gradOf R H' 8 = @Some (tensor R) gy /\
    @gradOf R H' 1 = @Some (tensor R) gx /\
    elt gy [0%nat] = 3 /\
    elt gy [1%nat] = 3 /\
    elt gx [0%nat] = 3 * (GradActP.logistic (2 * 3) * (1 - GradActP.logistic (2 * 3))) /\
    elt gx [1%nat] = 3 * (GradActP.logistic (2 * -4) * (1 - GradActP.logistic (2 * -4))).
Proof. exact @GradChainP.GradChainExamples.sigmoid_in_graph_ex. Qed.
Print Assumptions sigmoid_in_graph_instance.

Theorem library_equality_threshold_at_most_1e_240 :
  ConstsP.dec_le Consts.c_eq_threshold (1%Z, (-240)%Z) = true.
Proof. exact @ConstsP.threshold_at_most_1e_240. Qed.
Print Assumptions library_equality_threshold_at_most_1e_240.
