(* C14S — source tie by translation for the activations' forward compositions.
   Statements only (proofs: Proofs/Chain*P.v).  Model/Chains.v is REGENERATED from /repo's Go sources
   on every run by the translator harness/chainx (go/ast): the straight-line chains of Tensor method
   calls of the five activations' forward functions (component/layers/activations/*.go).
   Each theorem interprets the generated chain with the model's own operations (Model/ChainIR.v) and
   states that the interpretation IS the model's definition — for every heap, argument and outcome.
   An edit of the Go source that is not semantically the same chain changes Chains.v and the theorem
   about it no longer checks.  Any scalar type, no laws: closed under the global context. *)
From Coq Require Import String List ZArith Bool.
From Qeep Require Import Model.Scalar Model.Nd Model.Data Model.Valid Model.Api Model.Grad Model.Components Model.ChainIR.
From Qeep Require Model.Chains.
From Qeep Require Import Proofs.ChainBaseP Proofs.ChainActP.
Import ListNotations.
Local Open Scope string_scope.

Theorem relu_forward_is_its_source_chain :
  forall (A : Type) (SA : Scalar A) (h : heap) (x : nat) (nm : option nat),
  relu_forward h [Some x] nm =
  atomically h (asHres (runFun (hooksH rsNone noUser nm noGuard) Chains.relu_forward h [("x", x)])).
Proof. exact @ChainActP.relu_chain. Qed.
Print Assumptions relu_forward_is_its_source_chain.

Theorem sigmoid_forward_is_its_source_chain :
  forall (A : Type) (SA : Scalar A) (h : heap) (x : nat) (nm : option nat),
  sigmoid_forward h [Some x] nm =
  atomically h (asHres (runFun (hooksH rsNone noUser nm noGuard) Chains.sigmoid_forward h [("x", x)])).
Proof. exact @ChainActP.sigmoid_chain. Qed.
Print Assumptions sigmoid_forward_is_its_source_chain.

Theorem tanh_forward_is_its_source_chain :
  forall (A : Type) (SA : Scalar A) (h : heap) (x : nat) (nm : option nat),
  tanh_forward h [Some x] nm =
  asHres (runFun (hooksH rsNone noUser nm noGuard) Chains.tanh_forward h [("x", x)]).
Proof. exact @ChainActP.tanh_chain. Qed.
Print Assumptions tanh_forward_is_its_source_chain.

Theorem leaky_forward_is_its_source_chain :
  forall (A : Type) (SA : Scalar A) (h : heap) (m : A) (x : nat) (nm : option nat),
  leaky_forward h m [Some x] nm =
  atomically h
    (asHres (runFun (hooksH (rsLeaky m) noUser nm noGuard) Chains.leaky_forward h [("x", x)])).
Proof. exact @ChainActP.leaky_chain. Qed.
Print Assumptions leaky_forward_is_its_source_chain.

Theorem softmax_forward_is_its_source_chain :
  forall (A : Type) (SA : Scalar A) (h : heap) (dim x : nat) (nm : option nat),
  (rankOf h x <=? dim)%nat = false ->
  softmax_forward h dim [Some x] nm =
  atomically h
    (asHres (runFun (hooksH (rsSoftmax dim) noUser nm noGuard) Chains.softmax_forward h [("x", x)])).
Proof. exact @ChainActP.softmax_chain. Qed.
Print Assumptions softmax_forward_is_its_source_chain.
