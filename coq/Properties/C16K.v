(* C16K — source tie BY TRANSLATION for the component layer — the FC layer: input test (exactly one non-nil rank-2 tensor), Forward = input test then the forward body, validation of the initialised weights; the constructor NewFC / toValidFCConfig (config validation, default initializers XavierUniform(inputs, outputs) and Full(0), weight initialised first, both with shape [outputs]) against the model's fc_new.
   Statements only (proofs: Proofs/Comp*P.v).  Model/GoComp.v is REGENERATED from /repo's Go sources on every run by
   harness/gox (comp.go): the component layer's own logic — input validators, config validators, constructors, the
   scale formulas of the initializers, the Accuracy counters — as loop-free programs of the imperative language of
   Model/DataIR.v.  A tensor.Tensor interface value is nil or a node id of the model's heap; a config pointer is nil or
   the list of its fields; an error is 0 / 1; methods of tensors, float comparisons (parameters fltb / fleb: an
   abstract scalar has no order), int->float conversion and the library functions (tensor.RandU, the forward bodies
   that Properties/*S.v cover) are calls of the oracle Model/CompExt.v, in which SIBLING functions are linked by
   running their own translated programs.  Each theorem says that RUNNING the translated program returns exactly what
   the hand-written model (Model/Components.v) computes, for ALL heaps, arguments, fuel and depth; a returned outcome
   is never a panic.  An edit of one of these Go functions changes GoComp.v and breaks the theorem unless it computes
   the same thing.  Closed under the global context. *)
From Coq Require Import String List ZArith Bool Arith.
From Qeep Require Import Model.Scalar Model.Nd Model.Fill Model.Data Model.Valid Model.Api Model.Grad Model.Backprop Model.Components Model.Consts Model.DataIR Model.HeapExt Model.CompExt.
From Qeep Require Model.GoComp Model.GoWrap Model.DataExt Model.RandExt.
From Qeep Require Import Proofs.DataIRP.
From Qeep Require Proofs.CompValidP Proofs.CompAccP Proofs.CompInitP Proofs.CompInputP Proofs.CompFcP Proofs.CompTensorP Proofs.DataRandP Proofs.FillP Proofs.NdP.
Import ListNotations.
Local Open Scope string_scope.

Theorem FC_toValidInputs_exact :
  forall (A : Type) (SA : Scalar A) (fltb fleb : A -> A -> bool)
    (lib : string -> list dval -> heap -> option (list dval * heap)) (fuel depth : nat) 
    (h : heap) (w b : dval) (xs : list targ),
  CompValidP.targsOk h xs ->
  CompValidP.outcome
    (drun cfapp heap (cext0 fltb fleb lib) GoComp.c_FC_toValidInputs fuel depth
       [w; b; DL (map dtarg xs)] h) = Some (CompValidP.fcRet h xs, h).
Proof. exact @CompValidP.FC_toValidInputs_spec. Qed.
Print Assumptions FC_toValidInputs_exact.

Theorem FC_toValidInputs_ok_iff_one_rank2_input :
  forall (A : Type) (SA : Scalar A) (fltb fleb : A -> A -> bool)
    (lib : string -> list dval -> heap -> option (list dval * heap)) (fuel depth : nat) 
    (h : heap) (w b : dval) (xs : list targ),
  CompValidP.targsOk h xs ->
  forall (vs : list dval) (h' : heap),
  CompValidP.outcome
    (drun cfapp heap (cext0 fltb fleb lib) GoComp.c_FC_toValidInputs fuel depth
       [w; b; DL (map dtarg xs)] h) = Some (vs, h') ->
  nth 1 vs DNil = DI 0 <-> (exists x : nat, oneInput xs = Some x /\ rankOf h x = 2).
Proof. exact @CompValidP.FC_toValidInputs_ok_iff. Qed.
Print Assumptions FC_toValidInputs_ok_iff_one_rank2_input.

Theorem FC_Forward_is_input_test_then_forward :
  forall (A : Type) (SA : Scalar A) (fltb fleb : A -> A -> bool)
    (lib : string -> list dval -> heap -> option (list dval * heap)) (fuel depth : nat) 
    (h : heap) (w b : dval) (xs : list targ),
  CompAccP.inputOk h xs ->
  let o :=
    drun cfapp heap (cext fltb fleb lib) GoComp.c_FC_Forward fuel depth [w; b; CompAccP.dtargs xs] h in
  match oneInput xs with
  | Some x =>
      if (rankOf h x =? 2)%nat
      then CompAccP.libOut (lib "FC.forward" [w; b; DI (Z.of_nat x)] h) o
      else exists g l : denv, o = DRet heap [DNil; DI 1] h g l
  | None => exists g l : denv, o = DRet heap [DNil; DI 1] h g l
  end.
Proof. exact @CompAccP.FC_Forward_run. Qed.
Print Assumptions FC_Forward_is_input_test_then_forward.

Theorem FC_validateInitializedWeights_exact :
  forall (A : Type) (SA : Scalar A) (fltb fleb : A -> A -> bool)
    (lib : string -> list dval -> heap -> option (list dval * heap)) (fuel depth : nat) 
    (h : heap) (w b : targ) (inputs outputs : Z) (rest : dval),
  CompValidP.targOk h w ->
  CompValidP.targOk h b ->
  CompValidP.outcome
    (drun cfapp heap (cext0 fltb fleb lib) GoComp.c_FC_validateInitializedWeights fuel depth
       [dtarg w; dtarg b; DL [DI inputs; DI outputs; rest]] h) =
  Some ([DI (if CompValidP.initWeightsOk h w b outputs then 0%Z else 1%Z)], h).
Proof. exact @CompValidP.FC_validateInitializedWeights_spec. Qed.
Print Assumptions FC_validateInitializedWeights_exact.

Theorem FC_validateInitializedWeights_ok_iff :
  forall (A : Type) (SA : Scalar A) (fltb fleb : A -> A -> bool)
    (lib : string -> list dval -> heap -> option (list dval * heap)) (fuel depth : nat) 
    (h : heap) (w b : targ) (inputs outputs : Z) (rest : dval),
  CompValidP.targOk h w ->
  CompValidP.targOk h b ->
  CompValidP.outcome
    (drun cfapp heap (cext0 fltb fleb lib) GoComp.c_FC_validateInitializedWeights fuel depth
       [dtarg w; dtarg b; DL [DI inputs; DI outputs; rest]] h) = Some ([DI 0], h) <->
  (exists wn bn : nat,
     w = Some wn /\
     b = Some bn /\
     rankOf h wn = 1 /\
     rankOf h bn = 1 /\ Z.of_nat (dim0Of h wn) = outputs /\ Z.of_nat (dim0Of h bn) = outputs).
Proof. exact @CompValidP.FC_validateInitializedWeights_ok_iff. Qed.
Print Assumptions FC_validateInitializedWeights_ok_iff.

Theorem toValidFCConfig_rejects_nil :
  forall (A : Type) (SA : Scalar A) (fltb fleb : A -> A -> bool)
    (lib : string -> list dval -> heap -> option (list dval * heap)) (fuel depth : nat) 
    (h : heap),
  CompFcP.outcome
    (drun cfapp heap (cext2 fltb fleb lib) GoComp.c_FC_toValidFCConfig fuel depth [DNil] h) =
  Some ([DNil; DI 1], h).
Proof. exact @CompFcP.toValidFCConfig_nil. Qed.
Print Assumptions toValidFCConfig_rejects_nil.

Theorem toValidFCConfig_exact :
  forall (A : Type) (SA : Scalar A) (fltb fleb : A -> A -> bool)
    (lib : string -> list dval -> heap -> option (list dval * heap)) (fuel depth : nat)
    (inputs outputs : Z) (mp : option (option dval * option dval)) (h : heap),
  CompFcP.outcome
    (drun cfapp heap (cext2 fltb fleb lib) GoComp.c_FC_toValidFCConfig fuel depth
       [CompFcP.fcConf inputs outputs (CompFcP.fcMap mp)] h) =
  Some
    ([fst (CompFcP.fcValidated inputs outputs mp); DI (snd (CompFcP.fcValidated inputs outputs mp))], h).
Proof. exact @CompFcP.toValidFCConfig_spec. Qed.
Print Assumptions toValidFCConfig_exact.

Theorem toValidFCConfig_rejects_nonpositive_sizes :
  forall (A : Type) (SA : Scalar A) (fltb fleb : A -> A -> bool)
    (lib : string -> list dval -> heap -> option (list dval * heap)) (fuel depth : nat)
    (inputs outputs : Z) (m : dval) (h : heap),
  (inputs <= 0)%Z \/ (outputs <= 0)%Z ->
  CompFcP.outcome
    (drun cfapp heap (cext2 fltb fleb lib) GoComp.c_FC_toValidFCConfig fuel depth
       [CompFcP.fcConf inputs outputs m] h) = Some ([CompFcP.fcConf inputs outputs m; DI 1], h).
Proof. exact @CompFcP.toValidFCConfig_nonpos. Qed.
Print Assumptions toValidFCConfig_rejects_nonpositive_sizes.

Theorem toValidFCConfig_rejects_nil_weight_initializer :
  forall (A : Type) (SA : Scalar A) (fltb fleb : A -> A -> bool)
    (lib : string -> list dval -> heap -> option (list dval * heap)) (fuel depth : nat)
    (inputs outputs : Z) (mp : option (option dval * option dval)) (h : heap),
  (0 < inputs)%Z ->
  (0 < outputs)%Z ->
  CompFcP.mapW mp = Some DNil ->
  CompFcP.outcome
    (drun cfapp heap (cext2 fltb fleb lib) GoComp.c_FC_toValidFCConfig fuel depth
       [CompFcP.fcConf inputs outputs (CompFcP.fcMap mp)] h) =
  Some ([CompFcP.fcConf inputs outputs (CompFcP.fcMap mp); DI 1], h).
Proof. exact @CompFcP.toValidFCConfig_nilWeight. Qed.
Print Assumptions toValidFCConfig_rejects_nil_weight_initializer.

Theorem toValidFCConfig_rejects_nil_bias_initializer :
  forall (A : Type) (SA : Scalar A) (fltb fleb : A -> A -> bool)
    (lib : string -> list dval -> heap -> option (list dval * heap)) (fuel depth : nat)
    (inputs outputs : Z) (mp : option (option dval * option dval)) (h : heap),
  (0 < inputs)%Z ->
  (0 < outputs)%Z ->
  CompFcP.mapW mp <> Some DNil ->
  CompFcP.mapB mp = Some DNil ->
  CompFcP.outcome
    (drun cfapp heap (cext2 fltb fleb lib) GoComp.c_FC_toValidFCConfig fuel depth
       [CompFcP.fcConf inputs outputs (CompFcP.fcMap mp)] h) =
  Some
    ([CompFcP.fcConf inputs outputs (DL [DL [CompFcP.wvOf inputs outputs (CompFcP.mapW mp)]; DL [DNil]]);
      DI 1], h).
Proof. exact @CompFcP.toValidFCConfig_nilBias. Qed.
Print Assumptions toValidFCConfig_rejects_nil_bias_initializer.

Theorem toValidFCConfig_accepts_with_the_defaults :
  forall (A : Type) (SA : Scalar A) (fltb fleb : A -> A -> bool)
    (lib : string -> list dval -> heap -> option (list dval * heap)) (fuel depth : nat)
    (inputs outputs : Z) (mp : option (option dval * option dval)) (h : heap),
  (0 < inputs)%Z ->
  (0 < outputs)%Z ->
  CompFcP.mapW mp <> Some DNil ->
  CompFcP.mapB mp <> Some DNil ->
  CompFcP.outcome
    (drun cfapp heap (cext2 fltb fleb lib) GoComp.c_FC_toValidFCConfig fuel depth
       [CompFcP.fcConf inputs outputs (CompFcP.fcMap mp)] h) =
  Some
    ([CompFcP.fcConf inputs outputs
        (DL [DL [CompFcP.wvOf inputs outputs (CompFcP.mapW mp)]; DL [CompFcP.bvOf (CompFcP.mapB mp)]]);
      DI 0], h).
Proof. exact @CompFcP.toValidFCConfig_ok. Qed.
Print Assumptions toValidFCConfig_accepts_with_the_defaults.

Theorem toValidFCConfig_accepts_iff :
  forall (A : Type) (SA : Scalar A) (fltb fleb : A -> A -> bool)
    (lib : string -> list dval -> heap -> option (list dval * heap)) (fuel depth : nat)
    (inputs outputs : Z) (mp : option (option dval * option dval)) (h : heap),
  (exists c : dval,
     CompFcP.outcome
       (drun cfapp heap (cext2 fltb fleb lib) GoComp.c_FC_toValidFCConfig fuel depth
          [CompFcP.fcConf inputs outputs (CompFcP.fcMap mp)] h) = Some ([c; DI 0], h)) <->
  (0 < inputs)%Z /\ (0 < outputs)%Z /\ CompFcP.mapW mp <> Some DNil /\ CompFcP.mapB mp <> Some DNil.
Proof. exact @CompFcP.toValidFCConfig_accepts_iff. Qed.
Print Assumptions toValidFCConfig_accepts_iff.

Theorem NewFC_rejects_nil :
  forall (A : Type) (SA : Scalar A) (fltb fleb : A -> A -> bool)
    (lib : string -> list dval -> heap -> option (list dval * heap)) (fuel depth : nat) 
    (h : heap),
  CompFcP.outcome (drun cfapp heap (cext3 fltb fleb lib) GoComp.c_FC_NewFC fuel depth [DNil] h) =
  Some ([DNil; DI 1], h).
Proof. exact @CompFcP.NewFC_nil. Qed.
Print Assumptions NewFC_rejects_nil.

Theorem NewFC_rejects_what_the_config_validator_rejects :
  forall (A : Type) (SA : Scalar A) (fltb fleb : A -> A -> bool)
    (lib : string -> list dval -> heap -> option (list dval * heap)) (fuel depth : nat)
    (inputs outputs : Z) (mp : option (option dval * option dval)) (h : heap),
  CompFcP.fcReject inputs outputs mp = true ->
  CompFcP.outcome
    (drun cfapp heap (cext3 fltb fleb lib) GoComp.c_FC_NewFC fuel depth
       [CompFcP.fcConf inputs outputs (CompFcP.fcMap mp)] h) = Some ([DNil; DI 1], h).
Proof. exact @CompFcP.NewFC_reject. Qed.
Print Assumptions NewFC_rejects_what_the_config_validator_rejects.

Theorem NewFC_stops_at_a_failing_weight_Init :
  forall (A : Type) (SA : Scalar A) (fltb fleb : A -> A -> bool)
    (lib : string -> list dval -> heap -> option (list dval * heap)) (inputs outputs : Z)
    (mp : option (option dval * option dval)),
  CompFcP.fcReject inputs outputs mp = false ->
  forall (fuel depth : nat) (h h1 : heap) (w : dval) (e1 : Z),
  lib "Init" [CompFcP.wvOf inputs outputs (CompFcP.mapW mp); DL [DI outputs]] h = Some ([w; DI e1], h1) ->
  e1 <> 0%Z ->
  CompFcP.outcome
    (drun cfapp heap (cext3 fltb fleb lib) GoComp.c_FC_NewFC fuel depth
       [CompFcP.fcConf inputs outputs (CompFcP.fcMap mp)] h) = Some ([DNil; DI e1], h1).
Proof. exact @CompFcP.NewFC_weightInit_fails. Qed.
Print Assumptions NewFC_stops_at_a_failing_weight_Init.

Theorem NewFC_stops_at_a_failing_bias_Init :
  forall (A : Type) (SA : Scalar A) (fltb fleb : A -> A -> bool)
    (lib : string -> list dval -> heap -> option (list dval * heap)) (inputs outputs : Z)
    (mp : option (option dval * option dval)),
  CompFcP.fcReject inputs outputs mp = false ->
  forall (fuel depth : nat) (h h1 h2 : heap) (w b : dval) (e2 : Z),
  lib "Init" [CompFcP.wvOf inputs outputs (CompFcP.mapW mp); DL [DI outputs]] h = Some ([w; DI 0], h1) ->
  lib "Init" [CompFcP.bvOf (CompFcP.mapB mp); DL [DI outputs]] h1 = Some ([b; DI e2], h2) ->
  e2 <> 0%Z ->
  CompFcP.outcome
    (drun cfapp heap (cext3 fltb fleb lib) GoComp.c_FC_NewFC fuel depth
       [CompFcP.fcConf inputs outputs (CompFcP.fcMap mp)] h) = Some ([DNil; DI e2], h2).
Proof. exact @CompFcP.NewFC_biasInit_fails. Qed.
Print Assumptions NewFC_stops_at_a_failing_bias_Init.

Theorem NewFC_weight_first_then_bias_then_size_check :
  forall (A : Type) (SA : Scalar A) (fltb fleb : A -> A -> bool)
    (lib : string -> list dval -> heap -> option (list dval * heap)) (inputs outputs : Z)
    (mp : option (option dval * option dval)),
  CompFcP.fcReject inputs outputs mp = false ->
  forall (fuel depth : nat) (h h1 h2 : heap) (w b : targ),
  lib "Init" [CompFcP.wvOf inputs outputs (CompFcP.mapW mp); DL [DI outputs]] h =
  Some ([dtarg w; DI 0], h1) ->
  lib "Init" [CompFcP.bvOf (CompFcP.mapB mp); DL [DI outputs]] h1 = Some ([dtarg b; DI 0], h2) ->
  CompValidP.targOk h2 w ->
  CompValidP.targOk h2 b ->
  CompFcP.outcome
    (drun cfapp heap (cext3 fltb fleb lib) GoComp.c_FC_NewFC fuel depth
       [CompFcP.fcConf inputs outputs (CompFcP.fcMap mp)] h) =
  Some
    (if CompValidP.initWeightsOk h2 w b outputs then [DL [dtarg w; dtarg b]; DI 0] else [DNil; DI 1], h2).
Proof. exact @CompFcP.NewFC_initialized. Qed.
Print Assumptions NewFC_weight_first_then_bias_then_size_check.

Theorem NewFC_ok_iff :
  forall (A : Type) (SA : Scalar A) (fltb fleb : A -> A -> bool)
    (lib : string -> list dval -> heap -> option (list dval * heap)) (inputs outputs : Z)
    (mp : option (option dval * option dval)),
  CompFcP.fcReject inputs outputs mp = false ->
  forall (fuel depth : nat) (h h1 h2 : heap) (w b : targ),
  lib "Init" [CompFcP.wvOf inputs outputs (CompFcP.mapW mp); DL [DI outputs]] h =
  Some ([dtarg w; DI 0], h1) ->
  lib "Init" [CompFcP.bvOf (CompFcP.mapB mp); DL [DI outputs]] h1 = Some ([dtarg b; DI 0], h2) ->
  CompValidP.targOk h2 w ->
  CompValidP.targOk h2 b ->
  CompFcP.outcome
    (drun cfapp heap (cext3 fltb fleb lib) GoComp.c_FC_NewFC fuel depth
       [CompFcP.fcConf inputs outputs (CompFcP.fcMap mp)] h) = Some ([DL [dtarg w; dtarg b]; DI 0], h2) <->
  (exists wn bn : nat,
     w = Some wn /\
     b = Some bn /\
     rankOf h2 wn = 1 /\
     rankOf h2 bn = 1 /\ Z.of_nat (dim0Of h2 wn) = outputs /\ Z.of_nat (dim0Of h2 bn) = outputs).
Proof. exact @CompFcP.NewFC_ok_iff. Qed.
Print Assumptions NewFC_ok_iff.

Theorem rejection_test_is_the_models :
  forall (A : Type) (inputs outputs : Z) (wi bi : option (option initSpec)) (wd bd : option (@dval A)),
  @CompFcP.slotRep A wi wd ->
  @CompFcP.slotRep A bi bd ->
  @CompFcP.fcReject A inputs outputs (@Some (option (@dval A) * option (@dval A)) (wd, bd)) =
  (inputs <=? 0)%Z || (outputs <=? 0)%Z || CompFcP.specNil wi || CompFcP.specNil bi.
Proof. exact @CompFcP.fcReject_model. Qed.
Print Assumptions rejection_test_is_the_models.

Theorem fc_new_rejects_the_same :
  forall (A : Type) (SA : Scalar A) (dF dL dU dM dS : dec) (h : heap) (inputs outputs : Z)
    (wi bi : option (option initSpec)) (pos : nat),
  (inputs <=? 0)%Z || (outputs <=? 0)%Z || CompFcP.specNil wi || CompFcP.specNil bi = true ->
  fc_new dF dL dU dM dS h inputs outputs wi bi pos = (h, Err, pos).
Proof. exact @CompFcP.fc_new_reject. Qed.
Print Assumptions fc_new_rejects_the_same.

Theorem fc_new_initialises_weight_then_bias_with_shape_outputs :
  forall (A : Type) (SA : Scalar A) (dF dL dU dM dS : dec) (h : heap) (inputs outputs : Z)
    (wi bi : option (option initSpec)) (pos : nat),
  (inputs <=? 0)%Z || (outputs <=? 0)%Z || CompFcP.specNil wi || CompFcP.specNil bi = false ->
  fc_new dF dL dU dM dS h inputs outputs wi bi pos =
  (let (p, pos1) := init_run dF dL dU dM dS h (CompFcP.wsOf inputs outputs wi) [outputs] pos None in
   let (h1, r) := p in
   match r with
   | Ok w =>
       let (p0, pos2) := init_run dF dL dU dM dS h1 (CompFcP.bsOf bi) [outputs] pos1 None in
       let (h2, r0) := p0 in
       match r0 with
       | Ok b => (h2, Ok (w, b), pos2)
       | Err => (h, Err, pos)
       | Panic => (h, Panic, pos)
       end
   | Err => (h, Err, pos)
   | Panic => (h, Panic, pos)
   end).
Proof. exact @CompFcP.fc_new_accept. Qed.
Print Assumptions fc_new_initialises_weight_then_bias_with_shape_outputs.

Theorem default_weight_initializer_is_XavierUniform_inputs_outputs :
  forall (A : Type) (SA : Scalar A) (fltb fleb : A -> A -> bool)
    (lib : string -> list dval -> heap -> option (list dval * heap)) (dL dU dS : dec) 
    (fuel depth : nat) (inputs outputs : Z) (h : heap),
  (0 < inputs)%Z ->
  (0 < outputs)%Z ->
  init_valid dL dU dS (CompFcP.wsOf inputs outputs None) = true /\
  CompFcP.outcome
    (drun cfapp heap (cext fltb fleb lib) GoComp.c_XavierUniform_NewXavierUniform fuel depth
       [CompInitP.cfgI2 (Some (inputs, outputs))] h) =
  Some ([CompFcP.wvOf inputs outputs None; DI 0], h).
Proof. exact @CompFcP.default_weight_spec. Qed.
Print Assumptions default_weight_initializer_is_XavierUniform_inputs_outputs.

Theorem default_bias_initializer_is_Full_0 :
  forall (A : Type) (SA : Scalar A) (fltb fleb : A -> A -> bool)
    (lib : string -> list dval -> heap -> option (list dval * heap)) (dL dU dS : dec) 
    (fuel depth : nat) (h : heap),
  init_valid dL dU dS (CompFcP.bsOf None) = true /\
  CompFcP.outcome
    (drun cfapp heap (cext fltb fleb lib) GoComp.c_Full_NewFull fuel depth
       [CompInitP.cfgD1 (Some (0%Z, 0%Z))] h) = Some ([CompFcP.bvOf None], h).
Proof. exact @CompFcP.default_bias_spec. Qed.
Print Assumptions default_bias_initializer_is_Full_0.

Theorem default_weight_Init_arguments :
  forall (A : Type) (SA : Scalar A) (fltb fleb : A -> A -> bool)
    (lib : string -> list dval -> heap -> option (list dval * heap)) (fuel depth : nat)
    (inputs outputs : Z) (sh cfg : dval) (h h1 : heap),
  (0 < inputs)%Z ->
  (0 < outputs)%Z ->
  lib "tensorInitConf" [] h = Some ([cfg], h1) ->
  match CompFcP.wvOf inputs outputs None with
  | DL fields =>
      let r := sqrtOver 6 (inputs + outputs) in
      CompInitP.isCall
        (drun cfapp heap (cext0 fltb fleb lib) GoComp.c_XavierUniform_Init fuel depth (fields ++ [sh]) h)
        (lib "tensor.RandU" [sh; DF (ssub (sconst 0 0) r); DF r; cfg] h1)
  | _ => False
  end.
Proof. exact @CompFcP.default_weight_Init. Qed.
Print Assumptions default_weight_Init_arguments.

Theorem default_bias_Init_arguments :
  forall (A : Type) (SA : Scalar A) (fltb fleb : A -> A -> bool)
    (lib : string -> list dval -> heap -> option (list dval * heap)) (fuel depth : nat) 
    (sh cfg : dval) (h h1 : heap),
  lib "tensorInitConf" [] h = Some ([cfg], h1) ->
  match CompFcP.bvOf None with
  | DL fields =>
      CompInitP.isCall
        (drun cfapp heap (cext0 fltb fleb lib) GoComp.c_Full_Init fuel depth (fields ++ [sh]) h)
        (lib "tensor.Full" [sh; DF (dcst (0%Z, 0%Z)); cfg] h1)
  | _ => False
  end.
Proof. exact @CompFcP.default_bias_Init. Qed.
Print Assumptions default_bias_Init_arguments.
