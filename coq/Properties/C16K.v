(* C16K — source tie BY TRANSLATION for the component layer — the FC layer: input test (exactly one non-nil rank-2 tensor), Forward = input test then the forward body, validation of the initialised weights.
   Statements only (proofs: Proofs/Comp*P.v).  Model/GoComp.v is REGENERATED from /repo's Go sources on every run by
   harness/gox (comp.go): the component layer's own logic — input validators, config validators, constructors, the
   scale formulas of the initializers, the Accuracy counters — as loop-free programs of the imperative language of
   Model/DataIR.v.  A tensor.Tensor interface value is nil or a node id of the model's heap; a config pointer is nil or
   the list of its fields; an error is 0 / 1; methods of tensors, float comparisons (parameters fltb / fleb: an
   abstract scalar has no order), int->float conversion and the library functions (tensor.RandU, the forward bodies
   that Properties/*S.v cover) are calls of the oracle Model/CompExt.v, in which SIBLING functions are linked by
   running their own translated programs.  Each theorem says that RUNNING the translated program returns exactly what
   the hand-written model (Model/Components.v) computes, for ALL heaps, arguments, fuel and depth; a returned outcome
   is never a panic.  An edit of one of these Go functions changes GoComp.v and breaks the theorem unless it computes
   the same thing.  Closed under the global context. *)
From Coq Require Import String List ZArith Bool Arith.
From Qeep Require Import Model.Scalar Model.Nd Model.Fill Model.Data Model.Valid Model.Api Model.Grad Model.Backprop Model.Components Model.Consts Model.DataIR Model.HeapExt Model.CompExt.
From Qeep Require Model.GoComp.
From Qeep Require Import Proofs.DataIRP.
From Qeep Require Proofs.CompValidP Proofs.CompAccP Proofs.CompInitP.
Import ListNotations.
Local Open Scope string_scope.

Theorem FC_toValidInputs_exact :
  forall (A : Type) (SA : Scalar A) (fltb fleb : A -> A -> bool)
    (lib : string -> list dval -> heap -> option (list dval * heap)) (fuel depth : nat) 
    (h : heap) (w b : dval) (xs : list targ),
  CompValidP.targsOk h xs ->
  CompValidP.outcome
    (drun cfapp heap (cext0 fltb fleb lib) GoComp.c_FC_toValidInputs fuel depth
       [w; b; DL (map dtarg xs)] h) = Some (CompValidP.fcRet h xs, h).
Proof. exact @CompValidP.FC_toValidInputs_spec. Qed.
Print Assumptions FC_toValidInputs_exact.

Theorem FC_toValidInputs_ok_iff_one_rank2_input :
  forall (A : Type) (SA : Scalar A) (fltb fleb : A -> A -> bool)
    (lib : string -> list dval -> heap -> option (list dval * heap)) (fuel depth : nat) 
    (h : heap) (w b : dval) (xs : list targ),
  CompValidP.targsOk h xs ->
  forall (vs : list dval) (h' : heap),
  CompValidP.outcome
    (drun cfapp heap (cext0 fltb fleb lib) GoComp.c_FC_toValidInputs fuel depth
       [w; b; DL (map dtarg xs)] h) = Some (vs, h') ->
  nth 1 vs DNil = DI 0 <-> (exists x : nat, oneInput xs = Some x /\ rankOf h x = 2).
Proof. exact @CompValidP.FC_toValidInputs_ok_iff. Qed.
Print Assumptions FC_toValidInputs_ok_iff_one_rank2_input.

Theorem FC_Forward_is_input_test_then_forward :
  forall (A : Type) (SA : Scalar A) (fltb fleb : A -> A -> bool)
    (lib : string -> list dval -> heap -> option (list dval * heap)) (fuel depth : nat) 
    (h : heap) (w b : dval) (xs : list targ),
  CompAccP.inputOk h xs ->
  let o :=
    drun cfapp heap (cext fltb fleb lib) GoComp.c_FC_Forward fuel depth [w; b; CompAccP.dtargs xs] h in
  match oneInput xs with
  | Some x =>
      if (rankOf h x =? 2)%nat
      then CompAccP.libOut (lib "FC.forward" [w; b; DI (Z.of_nat x)] h) o
      else exists g l : denv, o = DRet heap [DNil; DI 1] h g l
  | None => exists g l : denv, o = DRet heap [DNil; DI 1] h g l
  end.
Proof. exact @CompAccP.FC_Forward_run. Qed.
Print Assumptions FC_Forward_is_input_test_then_forward.

Theorem FC_validateInitializedWeights_exact :
  forall (A : Type) (SA : Scalar A) (fltb fleb : A -> A -> bool)
    (lib : string -> list dval -> heap -> option (list dval * heap)) (fuel depth : nat) 
    (h : heap) (w b : targ) (inputs outputs : Z) (rest : dval),
  CompValidP.targOk h w ->
  CompValidP.targOk h b ->
  CompValidP.outcome
    (drun cfapp heap (cext0 fltb fleb lib) GoComp.c_FC_validateInitializedWeights fuel depth
       [dtarg w; dtarg b; DL [DI inputs; DI outputs; rest]] h) =
  Some ([DI (if CompValidP.initWeightsOk h w b outputs then 0%Z else 1%Z)], h).
Proof. exact @CompValidP.FC_validateInitializedWeights_spec. Qed.
Print Assumptions FC_validateInitializedWeights_exact.

Theorem FC_validateInitializedWeights_ok_iff :
  forall (A : Type) (SA : Scalar A) (fltb fleb : A -> A -> bool)
    (lib : string -> list dval -> heap -> option (list dval * heap)) (fuel depth : nat) 
    (h : heap) (w b : targ) (inputs outputs : Z) (rest : dval),
  CompValidP.targOk h w ->
  CompValidP.targOk h b ->
  CompValidP.outcome
    (drun cfapp heap (cext0 fltb fleb lib) GoComp.c_FC_validateInitializedWeights fuel depth
       [dtarg w; dtarg b; DL [DI inputs; DI outputs; rest]] h) = Some ([DI 0], h) <->
  (exists wn bn : nat,
     w = Some wn /\
     b = Some bn /\
     rankOf h wn = 1 /\
     rankOf h bn = 1 /\ Z.of_nat (dim0Of h wn) = outputs /\ Z.of_nat (dim0Of h bn) = outputs).
Proof. exact @CompValidP.FC_validateInitializedWeights_ok_iff. Qed.
Print Assumptions FC_validateInitializedWeights_ok_iff.
