(* C11S — source tie by translation for every component of the training loop.
   Statements only (proofs: Proofs/Chain*P.v).  Model/Chains.v is REGENERATED from /repo's Go sources
   on every run by the translator harness/chainx (go/ast): the straight-line chains of Tensor method
   calls of FC.forward, the activations, the losses and SGD.Update.
   Each theorem interprets the generated chain with the model's own operations (Model/ChainIR.v) and
   states that the interpretation IS the model's definition — for every heap, argument and outcome.
   An edit of the Go source that is not semantically the same chain changes Chains.v and the theorem
   about it no longer checks.  Any scalar type, no laws: closed under the global context. *)
From Coq Require Import String List ZArith Bool.
From Qeep Require Import Model.Scalar Model.Nd Model.Data Model.Valid Model.Api Model.Grad Model.Components Model.ChainIR.
From Qeep Require Model.Chains.
From Qeep Require Import Proofs.ChainBaseP Proofs.ChainActP Proofs.ChainFcP Proofs.ChainLossP Proofs.ChainSgdP.
Import ListNotations.
Local Open Scope string_scope.

Theorem fc_forward_is_its_source_chain :
  forall (A : Type) (SA : Scalar A) (h : heap) (w b x : nat) (nm : option nat),
  (rankOf h x =? 2)%nat = true ->
  fc_forward h w b [Some x] nm =
  atomically h
    (asHres
       (runFun (hooksH rsNone noUser nm noGuard) Chains.fc_forward h
          [("c.Weight", w); ("c.Bias", b); ("x", x)])).
Proof. exact @ChainFcP.fc_chain. Qed.
Print Assumptions fc_forward_is_its_source_chain.

Theorem relu_forward_is_its_source_chain :
  forall (A : Type) (SA : Scalar A) (h : heap) (x : nat) (nm : option nat),
  relu_forward h [Some x] nm =
  atomically h (asHres (runFun (hooksH rsNone noUser nm noGuard) Chains.relu_forward h [("x", x)])).
Proof. exact @ChainActP.relu_chain. Qed.
Print Assumptions relu_forward_is_its_source_chain.

Theorem sigmoid_forward_is_its_source_chain :
  forall (A : Type) (SA : Scalar A) (h : heap) (x : nat) (nm : option nat),
  sigmoid_forward h [Some x] nm =
  atomically h (asHres (runFun (hooksH rsNone noUser nm noGuard) Chains.sigmoid_forward h [("x", x)])).
Proof. exact @ChainActP.sigmoid_chain. Qed.
Print Assumptions sigmoid_forward_is_its_source_chain.

Theorem tanh_forward_is_its_source_chain :
  forall (A : Type) (SA : Scalar A) (h : heap) (x : nat) (nm : option nat),
  tanh_forward h [Some x] nm =
  asHres (runFun (hooksH rsNone noUser nm noGuard) Chains.tanh_forward h [("x", x)]).
Proof. exact @ChainActP.tanh_chain. Qed.
Print Assumptions tanh_forward_is_its_source_chain.

Theorem leaky_forward_is_its_source_chain :
  forall (A : Type) (SA : Scalar A) (h : heap) (m : A) (x : nat) (nm : option nat),
  leaky_forward h m [Some x] nm =
  atomically h
    (asHres (runFun (hooksH (rsLeaky m) noUser nm noGuard) Chains.leaky_forward h [("x", x)])).
Proof. exact @ChainActP.leaky_chain. Qed.
Print Assumptions leaky_forward_is_its_source_chain.

Theorem softmax_forward_is_its_source_chain :
  forall (A : Type) (SA : Scalar A) (h : heap) (dim x : nat) (nm : option nat),
  (rankOf h x <=? dim)%nat = false ->
  softmax_forward h dim [Some x] nm =
  atomically h
    (asHres (runFun (hooksH (rsSoftmax dim) noUser nm noGuard) Chains.softmax_forward h [("x", x)])).
Proof. exact @ChainActP.softmax_chain. Qed.
Print Assumptions softmax_forward_is_its_source_chain.

Theorem clip_is_its_source_chain :
  forall (A : Type) (SA : Scalar A) (h : heap) (x : nat) (l u : A),
  clip h x l u = asHres (runFun (hooksH (rsClip l u) noUser None noGuard) Chains.clip h [("x", x)]).
Proof. exact @ChainLossP.clip_chain. Qed.
Print Assumptions clip_is_its_source_chain.

Theorem mse_compute_is_its_source_chain :
  forall (A : Type) (SA : Scalar A) (h : heap) (p t : nat) (nm : option nat),
  mse_compute h (Some p) (Some t) nm =
  atomically h
    (asHres
       (runFun
          (hooksH rsNone noUser nm
             (lossGuard match lossArgs1 h (Some p) (Some t) with
                        | Some _ => true
                        | None => false
                        end)) Chains.mse_compute h [("yp", p); ("yt", t)])).
Proof. exact @ChainLossP.mse_chain. Qed.
Print Assumptions mse_compute_is_its_source_chain.

Theorem bce_compute_is_its_source_chain :
  forall (A : Type) (SA : Scalar A) (eps ome : A) (h : heap) (p t : nat) (nm : option nat),
  bce_compute eps ome h (Some p) (Some t) nm =
  atomically h
    (asHres
       (runFun
          (hooksH rsNone (clipUser eps ome) nm
             (lossGuard match lossArgs1 h (Some p) (Some t) with
                        | Some _ => true
                        | None => false
                        end)) Chains.bce_compute h [("yp", p); ("yt", t)])).
Proof. exact @ChainLossP.bce_chain. Qed.
Print Assumptions bce_compute_is_its_source_chain.

Theorem ce_compute_is_its_source_chain :
  forall (A : Type) (SA : Scalar A) (eps ome : A) (h : heap) (p t : nat) (nm : option nat),
  ce_compute eps ome h (Some p) (Some t) nm =
  atomically h
    (asHres
       (runFun (hooksH rsNone (clipUser eps ome) nm (lossGuard (ceOk h p t))) Chains.ce_compute h
          [("yp", p); ("yt", t)])).
Proof. exact @ChainLossP.ce_chain. Qed.
Print Assumptions ce_compute_is_its_source_chain.

Theorem sgd_update_is_its_source_chain :
  forall (A : Type) (SA : Scalar A) (h : heap) (lr : A) (w : nat) (nm : option nat),
  sgd_update h lr (Some w) nm =
  match valOf h w with
  | Some _ =>
      match asRes (runFun (hooksV (rsSgd lr) noVUser (sgdBind h w) noCond) Chains.sgd_update tt []) with
      | Ok v => let '(h', id) := alloc h v (false, true, []) nm in (h', Ok id)
      | Err => (h, Err)
      | Panic => (h, Panic)
      end
  | None => (h, Panic)
  end.
Proof. exact @ChainSgdP.sgd_chain. Qed.
Print Assumptions sgd_update_is_its_source_chain.
