(* C09S — source tie for the method layer of tensor/internal/cputensor/cputensor.go (every method: which validators run before the data layer).
   Statements only (proofs: Proofs/WiringP.v).  Model/Chains.v's [method_wiring] is REGENERATED from the
   source on every run by harness/chainx: for every public method the list of its statements in canonical
   text — the validation calls ("?" = followed by the error check that returns), the data-layer operation
   computing the value, the gradtrack constructor with its operands, the return.  The theorem pins the
   entries of the methods this property is about to [WiringP.method_wiring_expected], the wiring the
   model's v_* / h_* functions were written for.  This tie is SYNTACTIC: it detects any edit of these
   methods (a fast path, a dropped or reordered validator, another gradtrack constructor or operand order);
   what the wiring means is tied to the model by the correspondence check.  Closed under the global context. *)
From Coq Require Import String List Bool.
From Qeep Require Import Model.ChainIR.
From Qeep Require Model.Chains.
From Qeep Require Import Proofs.WiringP.
Import ListNotations.
Local Open Scope string_scope.

Theorem method_layer_is_as_modelled :
  same_wiring all_methods /\ Datatypes.length Chains.method_wiring = Datatypes.length all_methods.
Proof. exact @WiringP.wiring_all. Qed.
Print Assumptions method_layer_is_as_modelled.
