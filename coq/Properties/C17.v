(* C17 — An SGD update subtracts exactly learning-rate times gradient, element-wise.
   Statements only (proofs: Proofs/CompP.v; real-number reading: Proofs/CompRP.v when present).
   Arbitrary scalar type, any rank and shape, any learning rate.  The cell behind the pointer is
   modelled as [Some w] (a tensor) or [None] (nil).  The new tensor is appended to the heap: the
   previous tensor object (value AND gradient) is a prefix of the new heap, i.e. untouched. *)
From Coq Require Import List ZArith Bool.
From Qeep Require Import Model.Scalar Model.Nd Model.Data Model.Api Model.Grad Model.Components.
From Coq Require Import Reals.
From Qeep Require Import Proofs.NdP Proofs.CompP Spec.RScalar Proofs.CompRP.
Import ListNotations.

Theorem update_subtracts_lr_times_gradient :
  forall (A : Type) (SA : Scalar A) (h : heap) (lr : A) (w : nat) (name : option nat) (wv g : tensor A),
  valOf h w = Some wv ->
  gradOf h w = Some g ->
  wf wv ->
  wf g ->
  dims g = dims wv ->
  exists n : node,
    sgd_update h lr (Some w) name = (h ++ [n], Ok (length h)) /\
    ntracked n = false /\
    ndirty n = true /\
    ngrad n = None /\
    nedges n = [] /\
    nname n = name /\
    dims (nval n) = dims wv /\
    wf (nval n) /\
    (forall idx : list nat,
     validIdx (dims wv) idx ->
     get (data (nval n)) idx =
     match get (data wv) idx with
     | Some x => match get (data g) idx with
                 | Some gx => Some (ssub x (smul lr gx))
                 | None => None
                 end
     | None => None
     end).
Proof. exact @sgd_update_spec. Qed.
Print Assumptions update_subtracts_lr_times_gradient.

Theorem previous_tensor_and_gradient_untouched :
  forall (A : Type) (SA : Scalar A) (h : heap) (lr : A) (w : nat) (name : option nat) (wv g : tensor A),
  valOf h w = Some wv ->
  gradOf h w = Some g ->
  wf wv ->
  wf g ->
  dims g = dims wv ->
  exists (h' : heap) (r : tensor A),
    sgd_update h lr (Some w) name = (h', Ok (length h)) /\
    valOf h' (length h) = Some r /\
    valOf h' w = Some wv /\
    gradOf h' w = Some g /\
    (forall (i : nat) (n : node), nth_error h i = Some n -> nth_error h' i = Some n) /\
    length h' = S (length h).
Proof. exact @sgd_update_frame. Qed.
Print Assumptions previous_tensor_and_gradient_untouched.

Theorem nil_or_no_gradient_is_an_error :
  forall (A : Type) (SA : Scalar A) (h : heap) (lr : A) (name : option nat),
  sgd_update h lr None name = (h, Err) /\
  (forall (w : nat) (wv : tensor A),
   valOf h w = Some wv -> gradOf h w = None -> sgd_update h lr (Some w) name = (h, Err)).
Proof. exact @sgd_update_errors. Qed.
Print Assumptions nil_or_no_gradient_is_an_error.

Theorem failed_update_replaces_nothing :
  forall (A : Type) (SA : Scalar A) (h : heap) (lr : A) (cell name : option nat) 
    (h' : heap) (r : res nat),
  sgd_update h lr cell name = (h', r) -> (forall id : nat, r <> Ok id) -> h' = h.
Proof. exact @sgd_update_fail_frame. Qed.
Print Assumptions failed_update_replaces_nothing.

Theorem update_over_reals :
  forall (thr : R) (draw : bool -> nat -> R) (h : @heap R) (lr : R) (w : nat) 
    (name : option nat) (wv g : tensor R),
  @valOf R h w = @Some (tensor R) wv ->
  @gradOf R h w = @Some (tensor R) g ->
  @wf R wv ->
  @wf R g ->
  @dims R g = @dims R wv ->
  exists n : @node R,
    @sgd_update R (RS thr draw) h lr (@Some nat w) name = (h ++ [n], @Ok nat (@length (@node R) h)) /\
    @dims R (@nval R n) = @dims R wv /\
    @wf R (@nval R n) /\
    (forall idx : list nat,
     validIdx (@dims R wv) idx ->
     @get R (@data R (@nval R n)) idx =
     match @get R (@data R wv) idx with
     | Some x =>
         match @get R (@data R g) idx with
         | Some gx => @Some R (x - lr * gx)
         | None => @None R
         end
     | None => @None R
     end).
Proof. exact @sgd_update_real. Qed.
Print Assumptions update_over_reals.

Theorem default_learning_rate :
  dec2R (fst Consts.c_sgd_lr) (snd Consts.c_sgd_lr) = 0.01.
Proof. exact @sgd_default_learning_rate. Qed.
Print Assumptions default_learning_rate.
