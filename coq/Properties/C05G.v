(* C05G — source tie BY TRANSLATION for the integer / shape logic behind the reductions (squeezeDims, linearElemGeneratorWithReducedDim, numElems, the reduced-dimension validator).
   Statements only (proofs: Proofs/Go*P.v).  Model/GoFns.v is REGENERATED from /repo's Go sources on every run by
   harness/gox: each function below is a program of the small imperative language of Model/GoIR.v (Go int = Z
   without overflow, slices with value semantics — the translator refuses functions that write through aliases).
   Each theorem says that RUNNING the translated program (big-step semantics [exec] / [run], any fuel above the
   stated bound, hence no non-termination) returns exactly the value of the hand-written model function
   (Model/Valid.v, Model/Data.v, Model/Fill.v) for ALL arguments — for validators with no hypothesis at all, which
   also says they never panic; for shape helpers under the validator's precondition; for element generators: one
   call of the closure moves the multi-index state exactly like the model's odometer ([incr], [incr_skip], [bstep]),
   and the statements outside the integer fragment are pinned as text in source order ([itemShape]).
   The DATA layer (functions over `any`: float64 leaves and []any rows, recursive closures with pointer
   parameters) is translated into DataIR programs (Model/DataIR.v, Model/GoData.v, regenerated every run); the
   [data_*] / [drun_*] theorems say that running them returns exactly the model's nested data (Model/Data.v,
   Model/Fill.v) and panics exactly where the model says None.
   The thin WRAPPERS of cputensor (shape helper + element generator + initWith: transpose, reshape, broadcast, slice,
   patch, dot, matMul, reduceDimUsingFunc, constTensor, eyeMatrix) and the five cases of initTensorFromData are
   translated too (Model/GoWrap.v); their calls of the functions above go through the oracle Model/DataExt.v, which
   maps each callee to the model function the theorems above prove it to be; the [*_wrapper_*] theorems say the
   wrapper returns the model tensor (and panics where the model says None) and [initTensorFromData_*] that every case
   returns (shapeOf x, x) on data accepted by the validator.
   An edit of one of these Go functions changes GoFns.v / GoData.v and breaks the theorem unless it computes the same thing.
   Closed under the global context. *)
From Coq Require Import String List ZArith Bool Arith.
From Qeep Require Import Model.Scalar Model.Nd Model.Fill Model.Valid Model.GoIR Model.DataIR.
From Qeep Require Model.Data Model.Api Model.GoFns Model.GoData Model.DataExt Model.GoWrap.
From Qeep Require Import Proofs.GoIRP.
From Qeep Require Proofs.GoValidAtP Proofs.GoValidP1 Proofs.GoValidP2 Proofs.GoValidP3 Proofs.GoDimsP1 Proofs.GoDimsP2 Proofs.GoGenP1 Proofs.GoGenP2 Proofs.GoGenP3 Proofs.GoMatMulShapeP Proofs.DataAtP Proofs.DataSliceP Proofs.DataPatchP Proofs.DataApplyP Proofs.DataReduceP Proofs.DataFillP Proofs.DataLinalgP Proofs.DataConcatP Proofs.DataWrapP Proofs.DataFromDataP.
Import ListNotations.
Local Open Scope string_scope.

Theorem ValidateReducedDimAgainstDims_program_is_the_model_validator :
  forall (call : string -> list val -> outcome) (fuel : nat) (dim : Z) (dims : list Z),
  exec call fuel (fbody GoFns.ValidateReducedDimAgainstDims) [("dim", VI dim); ("dims", ints dims)] =
  ORet [errOf (validateReducedDimAgainstDims dim dims)].
Proof. exact @GoValidP2.go_ValidateReducedDimAgainstDims. Qed.
Print Assumptions ValidateReducedDimAgainstDims_program_is_the_model_validator.

Theorem ValidateReducedDimAgainstDims_run :
  forall (fuel : nat) (dim : Z) (dims : list Z),
  run GoFns.ftab fuel GoFns.ValidateReducedDimAgainstDims [VI dim; ints dims] =
  ORet [errOf (validateReducedDimAgainstDims dim dims)].
Proof. exact @GoValidP2.run_ValidateReducedDimAgainstDims. Qed.
Print Assumptions ValidateReducedDimAgainstDims_run.

Theorem numElems_program_is_the_model_function :
  forall (call : string -> list val -> outcome) (fuel : nat) (ds : list nat),
  exec call fuel (fbody GoFns.numElems) [("t.dims", nats ds)] = ORet [VI (Z.of_nat (prodn ds))].
Proof. exact @GoDimsP1.go_numElems. Qed.
Print Assumptions numElems_program_is_the_model_function.

Theorem squeezeDims_program_is_the_model_function :
  forall (call : string -> list val -> outcome) (fuel dim : nat) (ds : list nat),
  dim < Datatypes.length ds ->
  exec call fuel (fbody GoFns.squeezeDims) [("dim", VI (Z.of_nat dim)); ("dims", nats ds)] =
  ORet [nats (Data.squeezeDims dim ds)].
Proof. exact @GoDimsP1.go_squeezeDims. Qed.
Print Assumptions squeezeDims_program_is_the_model_function.

Theorem reducedDimGenerator_outer_shape :
  itemShape GoFns.linearElemGeneratorWithReducedDim_outer = [None; Some "return <closure>"].
Proof. exact @GoGenP2.linearElemGeneratorWithReducedDim_outer_shape. Qed.
Print Assumptions reducedDimGenerator_outer_shape.

Theorem reducedDimGenerator_step_shape :
  itemShape GoFns.linearElemGeneratorWithReducedDim_step =
  [Some "row := t.slice(state)"; None; Some "return trf(row)"].
Proof. exact @GoGenP2.linearElemGeneratorWithReducedDim_step_shape. Qed.
Print Assumptions reducedDimGenerator_step_shape.

Theorem reducedDimGenerator_initial_state :
  forall (call : string -> list val -> outcome) (fuel : nat) (ds : list nat) (dim : nat) (e : env),
  dim < Datatypes.length ds ->
  S (Datatypes.length ds) <= fuel ->
  lookup e "t.dims" = Some (nats ds) ->
  lookup e "dim" = Some (VI (Z.of_nat dim)) ->
  exists e' : env,
    exec call fuel GoGenP2.red_outer_code e = ONormal e' /\
    lookup e' "state" = Some (GoGenP2.rangesN (Data.redRanges dim ds (rev (linInit ds)))) /\
    lookup e' "t.dims" = Some (nats ds) /\ lookup e' "dim" = Some (VI (Z.of_nat dim)).
Proof. exact @GoGenP2.go_linearElemGeneratorWithReducedDim_outer_linInit. Qed.
Print Assumptions reducedDimGenerator_initial_state.

Theorem reducedDimGenerator_step_is_incr_skip :
  forall (call : string -> list val -> outcome) (fuel : nat) (ds st : list nat) (dim : nat) (e : env),
  dim < Datatypes.length ds ->
  Datatypes.length st = Datatypes.length ds ->
  S (Datatypes.length ds) <= fuel ->
  lookup e "t.dims" = Some (nats ds) ->
  lookup e "dim" = Some (VI (Z.of_nat dim)) ->
  lookup e "state" = Some (GoGenP2.rangesN (Data.redRanges dim ds (rev st))) ->
  exists e' : env,
    exec call fuel GoGenP2.red_step_code e = ONormal e' /\
    lookup e' "state" =
    Some
      (GoGenP2.rangesN
         (Data.redRanges dim ds (rev (incr_skip (Some (Datatypes.length ds - 1 - dim)) (rev ds) st)))) /\
    lookup e' "t.dims" = Some (nats ds) /\ lookup e' "dim" = Some (VI (Z.of_nat dim)).
Proof. exact @GoGenP2.go_linearElemGeneratorWithReducedDim_step. Qed.
Print Assumptions reducedDimGenerator_step_is_incr_skip.

Theorem reduceByAssociativeFunc_program_is_reduceBy :
  forall (A : Type) (SA : Scalar A) (fapp : string -> list A -> option A) (St : Type)
    (ext : string -> list dval -> St -> option (list dval * St)) (af : A -> A -> A),
  (forall v a : A, fapp "af" [v; a] = Some (af v a)) ->
  forall (fuel depth : nat) (ds : list nat) (x : nd A) (idv : A) (s : St),
  Datatypes.length ds < depth ->
  match Data.reduceBy af idv {| dims := ds; data := x |} with
  | Some v =>
      exists g l : denv,
        drun fapp St ext GoData.d_reduceByAssociativeFunc fuel depth [dnats ds; emb x; DF idv] s =
        DRet St [DF v] s g l
  | None =>
      drun fapp St ext GoData.d_reduceByAssociativeFunc fuel depth [dnats ds; emb x; DF idv] s =
      DPanic St
  end.
Proof. exact @DataReduceP.drun_reduceBy. Qed.
Print Assumptions reduceByAssociativeFunc_program_is_reduceBy.

Theorem trav_closure :
  forall (A : Type) (SA : Scalar A) (fapp : string -> list A -> option A) (St : Type)
    (ext : string -> list dval -> St -> option (list dval * St)) (af : A -> A -> A),
  (forall v a : A, fapp "af" [v; a] = Some (af v a)) ->
  forall (fuel : nat) (ds : list nat) (x : nd A) (v0 : A) (d : nat) (s : St) (g : denv),
  Datatypes.length ds <= d ->
  dlookup g "value" = Some (DF v0) ->
  match Data.trav af ds x v0 with
  | Some v =>
      exists g' : denv,
        callLD fapp St ext (plocals GoData.d_reduceByAssociativeFunc) fuel (S d) "trav"
          [dnats ds; emb x] s g = CRet St [] s g' /\
        dlookup g' "value" = Some (DF v) /\
        (forall y : string, y <> "value" -> dlookup g' y = dlookup g y)
  | None =>
      callLD fapp St ext (plocals GoData.d_reduceByAssociativeFunc) fuel (S d) "trav" [
        dnats ds; emb x] s g = CPanic St
  end.
Proof. exact @DataReduceP.data_trav. Qed.
Print Assumptions trav_closure.

Theorem copiedSliceOf_program_is_copiedSliceOf :
  forall (A : Type) (SA : Scalar A) (fapp : string -> list A -> option A) (St : Type)
    (ext : string -> list dval -> St -> option (list dval * St)) (fuel depth : nat) 
    (ds : list nat) (x : nd A) (index : list (nat * nat)) (s : St),
  Forall (fun r : nat * nat => fst r <= snd r) index ->
  Datatypes.length index < depth ->
  match Data.copiedSliceOf {| dims := ds; data := x |} index with
  | Some o =>
      exists g l : denv,
        drun fapp St ext GoData.d_copiedSliceOf fuel depth [dnats ds; emb x; dranges index] s =
        DRet St [dnats (dims o); emb (data o)] s g l
  | None =>
      drun fapp St ext GoData.d_copiedSliceOf fuel depth [dnats ds; emb x; dranges index] s = DPanic St
  end.
Proof. exact @DataSliceP.data_copiedSliceOf. Qed.
Print Assumptions copiedSliceOf_program_is_copiedSliceOf.

Theorem reduceDimUsingFunc_wrapper_is_reduceAlong :
  forall (A : Type) (SA : Scalar A) (fapp : string -> list A -> option A) (red : Data.reducer)
    (fuel depth : nat) (ds : list nat) (x : nd A) (dim : nat) (trf : dval),
  dim <= Datatypes.length ds ->
  DataWrapP.returns
    (drun fapp unit (DataExt.dext red) GoWrap.w_reduceDimUsingFunc fuel depth
       [dnats ds; emb x; DI (Z.of_nat dim); trf] tt)
    (Data.reduceAlong red {| dims := ds; data := x |} dim).
Proof. exact @DataWrapP.w_reduceDimUsingFunc_run. Qed.
Print Assumptions reduceDimUsingFunc_wrapper_is_reduceAlong.

Theorem reduceDimUsingFunc_wrapper_panics_beyond_rank :
  forall (A : Type) (SA : Scalar A) (fapp : string -> list A -> option A) (red : Data.reducer)
    (fuel depth : nat) (ds : list nat) (x : nd A) (dim : nat) (trf : dval),
  Datatypes.length ds < dim ->
  drun fapp unit (DataExt.dext red) GoWrap.w_reduceDimUsingFunc fuel depth
    [dnats ds; emb x; DI (Z.of_nat dim); trf] tt = DPanic unit.
Proof. exact @DataWrapP.w_reduceDimUsingFunc_outside. Qed.
Print Assumptions reduceDimUsingFunc_wrapper_panics_beyond_rank.
