(* C05G — source tie BY TRANSLATION for the integer / shape logic behind the reductions (squeezeDims, linearElemGeneratorWithReducedDim, numElems, the reduced-dimension validator).
   Statements only (proofs: Proofs/Go*P.v).  Model/GoFns.v is REGENERATED from /repo's Go sources on every run by
   harness/gox: each function below is a program of the small imperative language of Model/GoIR.v (Go int = Z
   without overflow, slices with value semantics — the translator refuses functions that write through aliases).
   Each theorem says that RUNNING the translated program (big-step semantics [exec] / [run], any fuel above the
   stated bound, hence no non-termination) returns exactly the value of the hand-written model function
   (Model/Valid.v, Model/Data.v, Model/Fill.v) for ALL arguments — for validators with no hypothesis at all, which
   also says they never panic; for shape helpers under the validator's precondition; for element generators: one
   call of the closure moves the multi-index state exactly like the model's odometer ([incr], [incr_skip], [bstep]),
   and the statements outside the integer fragment are pinned as text in source order ([itemShape]).
   An edit of one of these Go functions changes GoFns.v and breaks the theorem unless it computes the same thing.
   Closed under the global context. *)
From Coq Require Import String List ZArith Bool Arith.
From Qeep Require Import Model.Nd Model.Fill Model.Valid Model.GoIR.
From Qeep Require Model.Data Model.GoFns.
From Qeep Require Import Proofs.GoIRP.
From Qeep Require Proofs.GoValidAtP Proofs.GoValidP1 Proofs.GoValidP2 Proofs.GoValidP3 Proofs.GoDimsP1 Proofs.GoDimsP2 Proofs.GoGenP1 Proofs.GoGenP2 Proofs.GoGenP3.
Import ListNotations.
Local Open Scope string_scope.

Theorem ValidateReducedDimAgainstDims_program_is_the_model_validator :
  forall (call : string -> list val -> outcome) (fuel : nat) (dim : Z) (dims : list Z),
  exec call fuel (fbody GoFns.ValidateReducedDimAgainstDims) [("dim", VI dim); ("dims", ints dims)] =
  ORet [errOf (validateReducedDimAgainstDims dim dims)].
Proof. exact @GoValidP2.go_ValidateReducedDimAgainstDims. Qed.
Print Assumptions ValidateReducedDimAgainstDims_program_is_the_model_validator.

Theorem ValidateReducedDimAgainstDims_run :
  forall (fuel : nat) (dim : Z) (dims : list Z),
  run GoFns.ftab fuel GoFns.ValidateReducedDimAgainstDims [VI dim; ints dims] =
  ORet [errOf (validateReducedDimAgainstDims dim dims)].
Proof. exact @GoValidP2.run_ValidateReducedDimAgainstDims. Qed.
Print Assumptions ValidateReducedDimAgainstDims_run.

Theorem numElems_program_is_the_model_function :
  forall (call : string -> list val -> outcome) (fuel : nat) (ds : list nat),
  exec call fuel (fbody GoFns.numElems) [("t.dims", nats ds)] = ORet [VI (Z.of_nat (prodn ds))].
Proof. exact @GoDimsP1.go_numElems. Qed.
Print Assumptions numElems_program_is_the_model_function.

Theorem squeezeDims_program_is_the_model_function :
  forall (call : string -> list val -> outcome) (fuel dim : nat) (ds : list nat),
  dim < Datatypes.length ds ->
  exec call fuel (fbody GoFns.squeezeDims) [("dim", VI (Z.of_nat dim)); ("dims", nats ds)] =
  ORet [nats (Data.squeezeDims dim ds)].
Proof. exact @GoDimsP1.go_squeezeDims. Qed.
Print Assumptions squeezeDims_program_is_the_model_function.

Theorem reducedDimGenerator_outer_shape :
  itemShape GoFns.linearElemGeneratorWithReducedDim_outer = [None; Some "return <closure>"].
Proof. exact @GoGenP2.linearElemGeneratorWithReducedDim_outer_shape. Qed.
Print Assumptions reducedDimGenerator_outer_shape.

Theorem reducedDimGenerator_step_shape :
  itemShape GoFns.linearElemGeneratorWithReducedDim_step =
  [Some "row := t.slice(state)"; None; Some "return trf(row)"].
Proof. exact @GoGenP2.linearElemGeneratorWithReducedDim_step_shape. Qed.
Print Assumptions reducedDimGenerator_step_shape.

Theorem reducedDimGenerator_initial_state :
  forall (call : string -> list val -> outcome) (fuel : nat) (ds : list nat) (dim : nat) (e : env),
  dim < Datatypes.length ds ->
  S (Datatypes.length ds) <= fuel ->
  lookup e "t.dims" = Some (nats ds) ->
  lookup e "dim" = Some (VI (Z.of_nat dim)) ->
  exists e' : env,
    exec call fuel GoGenP2.red_outer_code e = ONormal e' /\
    lookup e' "state" = Some (GoGenP2.rangesN (Data.redRanges dim ds (rev (linInit ds)))) /\
    lookup e' "t.dims" = Some (nats ds) /\ lookup e' "dim" = Some (VI (Z.of_nat dim)).
Proof. exact @GoGenP2.go_linearElemGeneratorWithReducedDim_outer_linInit. Qed.
Print Assumptions reducedDimGenerator_initial_state.

Theorem reducedDimGenerator_step_is_incr_skip :
  forall (call : string -> list val -> outcome) (fuel : nat) (ds st : list nat) (dim : nat) (e : env),
  dim < Datatypes.length ds ->
  Datatypes.length st = Datatypes.length ds ->
  S (Datatypes.length ds) <= fuel ->
  lookup e "t.dims" = Some (nats ds) ->
  lookup e "dim" = Some (VI (Z.of_nat dim)) ->
  lookup e "state" = Some (GoGenP2.rangesN (Data.redRanges dim ds (rev st))) ->
  exists e' : env,
    exec call fuel GoGenP2.red_step_code e = ONormal e' /\
    lookup e' "state" =
    Some
      (GoGenP2.rangesN
         (Data.redRanges dim ds (rev (incr_skip (Some (Datatypes.length ds - 1 - dim)) (rev ds) st)))) /\
    lookup e' "t.dims" = Some (nats ds) /\ lookup e' "dim" = Some (VI (Z.of_nat dim)).
Proof. exact @GoGenP2.go_linearElemGeneratorWithReducedDim_step. Qed.
Print Assumptions reducedDimGenerator_step_is_incr_skip.
