(* C02G — source tie BY TRANSLATION for the autograd core (tensor/internal/gradtrack) — every constructor of gradients.go wires its back edges to the operands the model gives them, in that order (33 constructors + Concat with its slice ranges), and the Broadcast closure is bcastBack.
   Statements only (proofs: Proofs/Heap*P.v).  Model/GoGrad.v is REGENERATED from /repo's Go sources on every run by
   harness/gox: back_propagation.go (backward, topologicalOrder with its recursive closure, accumulateGrad),
   gradtrack.go (anyIsBPDirty, nonIsTracked) and every gradient-context constructor of gradients.go are programs of
   the imperative language of Model/DataIR.v in which tensors and contexts are node ids and every access to them is a
   call of the oracle Model/HeapExt.v ([hext]: c.tracked = ntracked, c.bpdirty = ndirty, c.gradient = ngrad,
   c.backEdges = nedges, e.gradFn() = eval_rule of that back edge — justified closure by closure in Properties/C02S.v).
   Each theorem says that RUNNING the translated program on a model heap returns exactly what the hand-written model
   (Model/Backprop.v, Model/Grad.v) computes, for ALL well-formed heaps.  Closed under the global context. *)
From Coq Require Import String List ZArith Bool Arith.
From Qeep Require Import Model.Scalar Model.Nd Model.Fill Model.Data Model.Valid Model.Api Model.Grad Model.Backprop Model.DataIR Model.HeapExt.
From Qeep Require Model.GoGrad.
From Qeep Require Import Proofs.DataIRP.
From Qeep Require Proofs.BackpropP Proofs.HeapAccP Proofs.HeapTopoP Proofs.HeapBackP Proofs.HeapCtorP Proofs.HeapBcastP.
Import ListNotations.
Local Open Scope string_scope.

Theorem constructor_table_names :
  Datatypes.length GoGrad.ctor_table = 34 /\
  map fst GoGrad.ctor_table =
  ["Concat"; "Slice"; "Patch"; "Transpose"; "Reshape"; "UnSqueeze"; "Squeeze"; "Flatten"; "Broadcast";
   "SumAlong"; "MaxAlong"; "MinAlong"; "AvgAlong"; "VarAlong"; "StdAlong"; "MeanAlong"; "Scale"; "Pow";
   "Exp"; "Log"; "Sin"; "Cos"; "Tan"; "Sinh"; "Cosh"; "Tanh"; "ElMax"; "ElMin"; "Add"; "Sub"; "Mul";
   "Div"; "Dot"; "MatMul"] /\
  map snd GoGrad.ctor_table =
  [GoGrad.c_Concat; GoGrad.c_Slice; GoGrad.c_Patch; GoGrad.c_Transpose; GoGrad.c_Reshape;
   GoGrad.c_UnSqueeze; GoGrad.c_Squeeze; GoGrad.c_Flatten; GoGrad.c_Broadcast; GoGrad.c_SumAlong;
   GoGrad.c_MaxAlong; GoGrad.c_MinAlong; GoGrad.c_AvgAlong; GoGrad.c_VarAlong; GoGrad.c_StdAlong;
   GoGrad.c_MeanAlong; GoGrad.c_Scale; GoGrad.c_Pow; GoGrad.c_Exp; GoGrad.c_Log; GoGrad.c_Sin;
   GoGrad.c_Cos; GoGrad.c_Tan; GoGrad.c_Sinh; GoGrad.c_Cosh; GoGrad.c_Tanh; GoGrad.c_ElMax;
   GoGrad.c_ElMin; GoGrad.c_Add; GoGrad.c_Sub; GoGrad.c_Mul; GoGrad.c_Div; GoGrad.c_Dot; GoGrad.c_MatMul].
Proof. exact @HeapCtorP.ctor_table_names. Qed.
Print Assumptions constructor_table_names.

Theorem every_constructor_wires_its_operands_in_order :
  forall (A : Type) (SA : Scalar A) (fapp : string -> list A -> option A) (rd : bred),
  @Forall (string * dprog)
    (fun e : string * dprog => @HeapCtorP.ctor_ok A SA fapp rd (@snd string dprog e))
    (@tl (string * dprog) GoGrad.ctor_table).
Proof. exact @HeapCtorP.ctor_table_ok. Qed.
Print Assumptions every_constructor_wires_its_operands_in_order.

Theorem constructor_result_explicit :
  forall (A : Type) (h : @heap A) (ns : list nat) (es : list (nat * @rule A)),
  @map (nat * @rule A) nat (@fst nat (@rule A)) es = ns ->
  @encCtx A (@mkCtx A h ns es) =
  (if @existsb nat (@dirtyOf A h) ns
   then @DL A [@DB A false; @DB A true; @DL A []]
   else
    if negb (@existsb nat (@trackedOf A h) ns)
    then @DL A [@DB A false; @DB A false; @DL A []]
    else @DL A [@DB A true; @DB A false; @DL A (@HeapCtorP.encTargets A 0 ns)]).
Proof. exact @HeapCtorP.encCtx_mkCtx. Qed.
Print Assumptions constructor_result_explicit.

Theorem Patch_constructor_is_the_models_context :
  forall (A : Type) (SA : Scalar A) (fapp : string -> list A -> option A) (rd : bred) 
    (yv iv : dval) (x p y : nat) (index : list zrange) (fuel depth : nat) (h : heap),
  x < Datatypes.length h ->
  p < Datatypes.length h ->
  exists g l : denv,
    drun fapp heap (hext rd) GoGrad.c_Patch fuel depth [yv; HeapCtorP.dnode x; HeapCtorP.dnode p; iv] h =
    DRet heap [encCtx (mkCtx h [x; p] [(x, RPatchX y p index); (p, RPatchP y p index)])] h g l.
Proof. exact @HeapCtorP.ctor_Patch_model. Qed.
Print Assumptions Patch_constructor_is_the_models_context.

Theorem arithmetic_constructors_are_the_models_context :
  forall (A : Type) (SA : Scalar A) (fapp : string -> list A -> option A) (rd : bred) 
    (b : binary) (prog : dprog) (yv : dval) (a1 a2 y fuel depth : nat) (h : heap),
  b = BiAdd /\ prog = GoGrad.c_Add \/
  b = BiSub /\ prog = GoGrad.c_Sub \/
  b = BiMul /\ prog = GoGrad.c_Mul \/ b = BiDiv /\ prog = GoGrad.c_Div ->
  a1 < Datatypes.length h ->
  a2 < Datatypes.length h ->
  exists g l : denv,
    drun fapp heap (hext rd) prog fuel depth [yv; HeapCtorP.dnode a1; HeapCtorP.dnode a2] h =
    DRet heap [encCtx (mkCtx h [a1; a2] (arithEdges b y a1 a2))] h g l.
Proof. exact @HeapCtorP.ctor_arith_model. Qed.
Print Assumptions arithmetic_constructors_are_the_models_context.

Theorem Concat_constructor_is_concatEdges :
  forall (A : Type) (SA : Scalar A) (fapp : string -> list A -> option A) (rd : bred) 
    (h : heap) (yn : nat) (xs : list nat) (vs : list (tensor A)) (dim fuel depth : nat),
  mapM (valOf h) xs = Some vs ->
  Datatypes.length xs < fuel ->
  (existsb (dirtyOf h) xs = false ->
   existsb (trackedOf h) xs = true -> Forall (fun v : tensor A => dim < Datatypes.length (dims v)) vs) ->
  exists g l : denv,
    drun fapp heap (hext rd) GoGrad.c_Concat fuel depth
      [DI (Z.of_nat yn); DL (map (fun n : nat => DI (Z.of_nat n)) xs); DI (Z.of_nat dim)] h =
    DRet heap [HeapBcastP.encCatCtx (mkCtx h xs (concatEdges yn dim (combine xs vs) 0))] h g l.
Proof. exact @HeapBcastP.heap_c_Concat. Qed.
Print Assumptions Concat_constructor_is_concatEdges.

Theorem Concat_constructor_tracked_case :
  forall (A : Type) (SA : Scalar A) (fapp : string -> list A -> option A) (rd : bred) 
    (h : heap) (yn : nat) (xs : list nat) (vs : list (tensor A)) (dim fuel depth : nat),
  mapM (valOf h) xs = Some vs ->
  existsb (dirtyOf h) xs = false ->
  existsb (trackedOf h) xs = true ->
  Datatypes.length xs < fuel ->
  if forallb (fun v : tensor A => (dim <? Datatypes.length (dims v))%nat) vs
  then
   exists g l : denv,
     drun fapp heap (hext rd) GoGrad.c_Concat fuel depth
       [DI (Z.of_nat yn); DL (map (fun n : nat => DI (Z.of_nat n)) xs); DI (Z.of_nat dim)] h =
     DRet heap
       [DL [DB true; DB false; DL (map HeapBcastP.encCatEdge (concatEdges yn dim (combine xs vs) 0))]] h
       g l
  else
   drun fapp heap (hext rd) GoGrad.c_Concat fuel depth
     [DI (Z.of_nat yn); DL (map (fun n : nat => DI (Z.of_nat n)) xs); DI (Z.of_nat dim)] h = 
   DPanic heap.
Proof. exact @HeapBcastP.heap_c_Concat_tracked. Qed.
Print Assumptions Concat_constructor_tracked_case.

Theorem Broadcast_closure_is_bcastBack_avg :
  forall (A : Type) (SA : Scalar A) (fapp : string -> list A -> option A) (rd : bred) 
    (h : heap) (x y : nat) (xv yv gy : tensor A) (fuel depth : nat),
  x < Datatypes.length h ->
  y < Datatypes.length h ->
  valOf h x = Some xv ->
  valOf h y = Some yv ->
  gradOf h y = Some gy ->
  Datatypes.length (dims yv) + 1 < fuel ->
  match bcastBack RedAvg gy (dims xv) (dims yv) with
  | Ok r =>
      exists g l : denv,
        drun fapp heap (hext rd) GoGrad.r_Broadcast_closure fuel depth
          [DI (Z.of_nat x); DI (Z.of_nat y)] h = DRet heap [embT r; DI 0] h g l
  | Err =>
      exists g l : denv,
        drun fapp heap (hext rd) GoGrad.r_Broadcast_closure fuel depth
          [DI (Z.of_nat x); DI (Z.of_nat y)] h = DRet heap [DNil; DI 1] h g l
  | Panic =>
      drun fapp heap (hext rd) GoGrad.r_Broadcast_closure fuel depth [DI (Z.of_nat x); DI (Z.of_nat y)]
        h = DPanic heap
  end.
Proof. exact @HeapBcastP.heap_r_Broadcast. Qed.
Print Assumptions Broadcast_closure_is_bcastBack_avg.
