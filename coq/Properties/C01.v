(* C01 — Back-propagation yields the total derivative on any operation DAG.
   Statements only (proofs: Proofs/BackpropP.v).  This file holds the ALGORITHMIC half, for an
   arbitrary scalar type and ANY heap built through the API (any DAG, fan-out, reconvergence,
   depth, tracked/untracked assignment, root): back-propagation visits the tracked sub-graph in
   a duplicate-free order in which every consumer precedes its operands; the gradient left on a
   node n is its PREVIOUS gradient (back-propagations over graphs sharing leaves add up)
   accumulated with the all-ones seed if n is the root and then with ONE contribution per back
   edge into n — the edge's rule evaluated on its consumer's FINAL gradient (contributions are
   evaluated in the final heap h'); nothing else changes; the number of rule evaluations is the
   number of back edges with tracked targets of the visited nodes, hence at most the number of
   edges of the heap (linear).  [accAll o l] folds accumulateGrad (None + g = g, Some g0 + g =
   g0.Add(g)).  The pinned recursive walk is refuted by the diamond x; m = 2x; y = m + m
   (6 instead of 4) and evaluates 2^(d+2)-3 rules on a doubling chain of depth d.
   The ANALYTIC half (the accumulated value is the derivative of the sum of the root's
   elements when every rule is the vector-Jacobian product of its operation, C02/C07) is in
   Proofs/TotalDerivP.v when present; see the end of this file. *)
From Coq Require Import List ZArith Bool.
From Qeep Require Import Model.Scalar Model.Nd Model.Data Model.Valid Model.Api Model.Grad Model.Backprop.
From Qeep Require Import Proofs.BackpropP.
Import ListNotations.

Theorem backprop_accumulates_each_edge_once_with_final_gradients :
  forall (A : Type) (SA : Scalar A) (rd : bred) (h : @heap A) (root : nat) (h' : @heap A)
    (log : list (nat * tensor A)),
  @rules_own A h ->
  @wf_heap A h ->
  @trackedOf A h root = true ->
  @bp_topo A SA rd (fun (_ : option nat) (g : tensor A) => g) h root = (h', log, @Ok unit tt) ->
  let order := @topoOrder A h root in
  exists rv ones : tensor A,
    @valOf A h root = @Some (tensor A) rv /\
    @toOnes A SA rv = @Ok (tensor A) ones /\
    @length (@node A) h' = @length (@node A) h /\
    (forall i : nat,
     @valOf A h' i = @valOf A h i /\
     @trackedOf A h' i = @trackedOf A h i /\ @edgesOf A h' i = @edgesOf A h i) /\
    (forall n : nat, ~ @In nat n order -> @gradOf A h' n = @gradOf A h n) /\
    (forall n : nat,
     @In nat n order ->
     @accAll A SA (@gradOf A h n)
       ((if n =? root then [ones] else []) ++ @contributions A SA rd h' h order n) =
     @Some (option (tensor A)) (@gradOf A h' n)) /\
    (forall c : nat, @In nat c order -> @gradOf A h' c <> @None (tensor A)) /\
    (forall (c : nat) (e : nat * @rule A),
     @In nat c order ->
     @In (nat * @rule A) e (@edgesOf A h c) ->
     @trackedOf A h (@fst nat (@rule A) e) = true ->
     exists g : tensor A, @eval_rule A SA rd h' (@snd nat (@rule A) e) = @Ok (tensor A) g) /\
    log = @rev (nat * tensor A) (@logOf A h' order).
Proof. exact @bp_topo_correct. Qed.
Print Assumptions backprop_accumulates_each_edge_once_with_final_gradients.

Theorem backprop_from_untracked_root_changes_nothing :
  forall (A : Type) (SA : Scalar A) (rd : bred) (sealg : option nat -> tensor A -> tensor A) 
    (h : heap) (root : nat), trackedOf h root = false -> bp_topo rd sealg h root = (h, [], Ok tt).
Proof. exact @bp_topo_untracked. Qed.
Print Assumptions backprop_from_untracked_root_changes_nothing.

Theorem visiting_order_is_topological :
  forall (A : Type) (h : @heap A) (root : nat),
  @wf_heap A h ->
  @trackedOf A h root = true ->
  let order := @topoOrder A h root in
  @NoDup nat order /\
  (forall c : nat, @In nat c order -> @trackedOf A h c = true) /\
  @ordered A h order /\
  @hd_error nat order = @Some nat root /\
  @In nat root order /\
  (forall c : nat, @In nat c order -> c <= root) /\
  (forall c : nat,
   @In nat c order ->
   c = root \/
   (exists (p : nat) (e : nat * @rule A),
      @In nat p order /\ @In (nat * @rule A) e (@edgesOf A h p) /\ @fst nat (@rule A) e = c)) /\
  @length nat order <= S root.
Proof. exact @topoOrder_facts. Qed.
Print Assumptions visiting_order_is_topological.

Theorem rule_evaluations_equal_number_of_tracked_edges :
  forall (A : Type) (SA : Scalar A) (rd : bred) (h : @heap A) (root : nat) (h' : @heap A)
    (log : list (nat * tensor A)) (k : nat),
  @rules_own A h ->
  @wf_heap A h ->
  @trackedOf A h root = true ->
  @bp_topo_cnt A SA rd h root = (h', log, @Ok unit tt, k) ->
  @bp_topo A SA rd (fun (_ : option nat) (g : tensor A) => g) h root = (h', log, @Ok unit tt) /\
  k = @length (nat * @rule A) (@tracked_edges A h (@topoOrder A h root)) /\
  k <= @length (nat * @rule A) (@flat_map (@node A) (nat * @rule A) (@nedges A) h) /\
  @length nat (@topoOrder A h root) <= S root.
Proof. exact @bp_topo_rule_count_closed. Qed.
Print Assumptions rule_evaluations_equal_number_of_tracked_edges.

Theorem rules_read_only_values_and_their_consumers_gradient :
  forall (A : Type) (SA : Scalar A) (rd : bred) (h1 h2 : heap) (r : rule),
  (forall i : nat, valOf h1 i = valOf h2 i) ->
  gradOf h1 (rule_y r) = gradOf h2 (rule_y r) -> eval_rule rd h1 r = eval_rule rd h2 r.
Proof. exact @eval_rule_ext. Qed.
Print Assumptions rules_read_only_values_and_their_consumers_gradient.

Theorem api_heaps_edges_read_own_gradient_arith :
  forall (A : Type) (SA : Scalar A) (h : @heap A) (b : binary) (x u : nat) (name : option nat),
  @rules_own A h -> @rules_own A (@fst (@heap A) (res nat) (@h_arith A SA h b x u name)).
Proof. exact @rules_own_arith. Qed.
Print Assumptions api_heaps_edges_read_own_gradient_arith.

Theorem api_heaps_edges_read_own_gradient_concat :
  forall (A : Type) (h : @heap A) (xs : list nat) (dim : Z) (name : option nat),
  @rules_own A h -> @rules_own A (@fst (@heap A) (res nat) (@h_concat A h xs dim name)).
Proof. exact @rules_own_concat. Qed.
Print Assumptions api_heaps_edges_read_own_gradient_concat.

Theorem pinned_path_walk_refuted :
  let w := @bp_walk Z Witness.Z_scalar RedSum 50 Witness.dh Witness.dy in
  let t := @bp_topo Z Witness.Z_scalar RedSum Witness.ids Witness.dh Witness.dy in
  @snd (@heap Z * nat) (res unit) w = @Ok unit tt /\
  @gradOf Z (@fst (@heap Z) nat (@fst (@heap Z * nat) (res unit) w)) 0 =
  @Some (tensor Z) (Witness.vec2 6 6) /\
  @snd (@heap Z * list (nat * tensor Z)) (res unit) t = @Ok unit tt /\
  @gradOf Z
    (@fst (@heap Z) (list (nat * tensor Z)) (@fst (@heap Z * list (nat * tensor Z)) (res unit) t)) 0 =
  @Some (tensor Z) (Witness.vec2 4 4).
Proof. exact @Witness.walk_refuted. Qed.
Print Assumptions pinned_path_walk_refuted.

Theorem pinned_path_walk_is_exponential :
  @map nat nat Witness.walk_count Witness.depths = [5; 13; 29; 61; 125; 253] /\
  @map nat nat Witness.walk_count Witness.depths =
  @map nat nat (fun d : nat => 2 ^ (d + 2) - 3) Witness.depths /\
  @map nat nat Witness.topo_count Witness.depths = [4; 8; 12; 16; 20; 24] /\
  @map nat nat Witness.topo_count Witness.depths = @map nat nat Witness.edge_count Witness.depths /\
  @map nat (nat * nat)
    (fun d : nat =>
     let '(h, y) := Witness.chainH d in (@length (@node Z) h, @length nat (@topoOrder Z h y)))
    Witness.depths = [(4, 4); (7, 7); (10, 10); (13, 13); (16, 16); (19, 19)] /\
  @map nat (res unit * res unit)
    (fun d : nat =>
     let
     '(h, y) := Witness.chainH d in
      (@snd (@heap Z * nat) (res unit) (@bp_walk Z Witness.Z_scalar RedSum 100 h y),
       @snd (@heap Z * list (nat * tensor Z)) (res unit)
         (@fst (@heap Z * list (nat * tensor Z) * res unit) nat
            (@bp_topo_cnt Z Witness.Z_scalar RedSum h y)))) Witness.depths =
  @map nat (res unit * res unit) (fun _ : nat => (@Ok unit tt, @Ok unit tt)) Witness.depths.
Proof. exact @Witness.walk_rule_counts. Qed.
Print Assumptions pinned_path_walk_is_exponential.

Theorem theorem_instantiated_on_the_diamond :
  let r := @bp_topo Z Witness.Z_scalar RedSum Witness.ids Witness.dh Witness.dy in
  forall n : nat,
  @In nat n [4; 3; 2; 1; 0] ->
  @accAll Z Witness.Z_scalar (@gradOf Z Witness.dh n)
    ((if n =? Witness.dy then [Witness.vec2 1 1] else []) ++
     @contributions Z Witness.Z_scalar RedSum
       (@fst (@heap Z) (list (nat * tensor Z)) (@fst (@heap Z * list (nat * tensor Z)) (res unit) r))
       Witness.dh (@topoOrder Z Witness.dh Witness.dy) n) =
  @Some (option (tensor Z))
    (@gradOf Z
       (@fst (@heap Z) (list (nat * tensor Z)) (@fst (@heap Z * list (nat * tensor Z)) (res unit) r)) n).
Proof. exact @Witness.diamond_correct. Qed.
Print Assumptions theorem_instantiated_on_the_diamond.
