(* C01 — Back-propagation yields the total derivative on any operation DAG.
   Statements only (proofs: Proofs/BackpropP.v).  This file holds the ALGORITHMIC half, for an
   arbitrary scalar type and ANY heap built through the API (any DAG, fan-out, reconvergence,
   depth, tracked/untracked assignment, root): back-propagation visits the tracked sub-graph in
   a duplicate-free order in which every consumer precedes its operands; the gradient left on a
   node n is its PREVIOUS gradient (back-propagations over graphs sharing leaves add up)
   accumulated with the all-ones seed if n is the root and then with ONE contribution per back
   edge into n — the edge's rule evaluated on its consumer's FINAL gradient (contributions are
   evaluated in the final heap h'); nothing else changes; the number of rule evaluations is the
   number of back edges with tracked targets of the visited nodes, hence at most the number of
   edges of the heap (linear).  [accAll o l] folds accumulateGrad (None + g = g, Some g0 + g =
   g0.Add(g)).  The pinned recursive walk is refuted by the diamond x; m = 2x; y = m + m
   (6 instead of 4) and evaluates 2^(d+2)-3 rules on a doubling chain of depth d.
   The ANALYTIC half (Proofs/TotalDerivP.v, over the reals, fresh graph): if every back edge's
   rule is linear in the upstream gradient with a Jacobian D (jac_hyp — exactly what the C02/C07
   theorems establish rule by rule), then for every tracked node x of the graph and every
   direction dl the gradient left on x, paired with dl, equals the sum over the root's elements
   of the forward-mode tangent of the root (bp_duality: reverse accumulation is the adjoint of
   tangent propagation; pure finite-sum algebra, any DAG).  If moreover the re-evaluated node
   values obey the multivariate chain rule at the nodes above x (chain_hyp: a statement of
   calculus about each operation, proved here for linear/gather and element-wise nodes and
   instantiated on a concrete graph) then that number IS the derivative of the sum of the
   root's elements along dl, and the gradient element i is the partial derivative with respect
   to x_i (bp_total_derivative, bp_partial_derivative).  PARTIAL: chain_hyp is not discharged
   for every operation of the library. *)
From Coq Require Import List ZArith Bool.
From Qeep Require Import Model.Scalar Model.Nd Model.Data Model.Valid Model.Api Model.Grad Model.Backprop.
From Coq Require Import Reals.
From Qeep Require Import Proofs.BackpropP Spec.RScalar Spec.VjpSpec.
From Qeep Require Proofs.TotalDerivP.
Import ListNotations.

Theorem backprop_accumulates_each_edge_once_with_final_gradients :
  forall (A : Type) (SA : Scalar A) (rd : bred) (h : @heap A) (root : nat) (h' : @heap A)
    (log : list (nat * tensor A)),
  @rules_own A h ->
  @wf_heap A h ->
  @trackedOf A h root = true ->
  @bp_topo A SA rd (fun (_ : option nat) (g : tensor A) => g) h root = (h', log, @Ok unit tt) ->
  let order := @topoOrder A h root in
  exists rv ones : tensor A,
    @valOf A h root = @Some (tensor A) rv /\
    @toOnes A SA rv = @Ok (tensor A) ones /\
    @length (@node A) h' = @length (@node A) h /\
    (forall i : nat,
     @valOf A h' i = @valOf A h i /\
     @trackedOf A h' i = @trackedOf A h i /\ @edgesOf A h' i = @edgesOf A h i) /\
    (forall n : nat, ~ @In nat n order -> @gradOf A h' n = @gradOf A h n) /\
    (forall n : nat,
     @In nat n order ->
     @accAll A SA (@gradOf A h n)
       ((if n =? root then [ones] else []) ++ @contributions A SA rd h' h order n) =
     @Some (option (tensor A)) (@gradOf A h' n)) /\
    (forall c : nat, @In nat c order -> @gradOf A h' c <> @None (tensor A)) /\
    (forall (c : nat) (e : nat * @rule A),
     @In nat c order ->
     @In (nat * @rule A) e (@edgesOf A h c) ->
     @trackedOf A h (@fst nat (@rule A) e) = true ->
     exists g : tensor A, @eval_rule A SA rd h' (@snd nat (@rule A) e) = @Ok (tensor A) g) /\
    log = @rev (nat * tensor A) (@logOf A h' order).
Proof. exact @bp_topo_correct. Qed.
Print Assumptions backprop_accumulates_each_edge_once_with_final_gradients.

Theorem backprop_from_untracked_root_changes_nothing :
  forall (A : Type) (SA : Scalar A) (rd : bred) (sealg : option nat -> tensor A -> tensor A) 
    (h : heap) (root : nat), trackedOf h root = false -> bp_topo rd sealg h root = (h, [], Ok tt).
Proof. exact @bp_topo_untracked. Qed.
Print Assumptions backprop_from_untracked_root_changes_nothing.

Theorem visiting_order_is_topological :
  forall (A : Type) (h : @heap A) (root : nat),
  @wf_heap A h ->
  @trackedOf A h root = true ->
  let order := @topoOrder A h root in
  @NoDup nat order /\
  (forall c : nat, @In nat c order -> @trackedOf A h c = true) /\
  @ordered A h order /\
  @hd_error nat order = @Some nat root /\
  @In nat root order /\
  (forall c : nat, @In nat c order -> (c <= root)%nat) /\
  (forall c : nat,
   @In nat c order ->
   c = root \/
   (exists (p : nat) (e : nat * @rule A),
      @In nat p order /\ @In (nat * @rule A) e (@edgesOf A h p) /\ @fst nat (@rule A) e = c)) /\
  (@length nat order <= S root)%nat.
Proof. exact @topoOrder_facts. Qed.
Print Assumptions visiting_order_is_topological.

Theorem rule_evaluations_equal_number_of_tracked_edges :
  forall (A : Type) (SA : Scalar A) (rd : bred) (h : @heap A) (root : nat) (h' : @heap A)
    (log : list (nat * tensor A)) (k : nat),
  @rules_own A h ->
  @wf_heap A h ->
  @trackedOf A h root = true ->
  @bp_topo_cnt A SA rd h root = (h', log, @Ok unit tt, k) ->
  @bp_topo A SA rd (fun (_ : option nat) (g : tensor A) => g) h root = (h', log, @Ok unit tt) /\
  k = @length (nat * @rule A) (@tracked_edges A h (@topoOrder A h root)) /\
  (k <= @length (nat * @rule A) (@flat_map (@node A) (nat * @rule A) (@nedges A) h))%nat /\
  (@length nat (@topoOrder A h root) <= S root)%nat.
Proof. exact @bp_topo_rule_count_closed. Qed.
Print Assumptions rule_evaluations_equal_number_of_tracked_edges.

Theorem rules_read_only_values_and_their_consumers_gradient :
  forall (A : Type) (SA : Scalar A) (rd : bred) (h1 h2 : heap) (r : rule),
  (forall i : nat, valOf h1 i = valOf h2 i) ->
  gradOf h1 (rule_y r) = gradOf h2 (rule_y r) -> eval_rule rd h1 r = eval_rule rd h2 r.
Proof. exact @eval_rule_ext. Qed.
Print Assumptions rules_read_only_values_and_their_consumers_gradient.

Theorem api_heaps_edges_read_own_gradient_arith :
  forall (A : Type) (SA : Scalar A) (h : @heap A) (b : binary) (x u : nat) (name : option nat),
  @rules_own A h -> @rules_own A (@fst (@heap A) (res nat) (@h_arith A SA h b x u name)).
Proof. exact @rules_own_arith. Qed.
Print Assumptions api_heaps_edges_read_own_gradient_arith.

Theorem api_heaps_edges_read_own_gradient_concat :
  forall (A : Type) (h : @heap A) (xs : list nat) (dim : Z) (name : option nat),
  @rules_own A h -> @rules_own A (@fst (@heap A) (res nat) (@h_concat A h xs dim name)).
Proof. exact @rules_own_concat. Qed.
Print Assumptions api_heaps_edges_read_own_gradient_concat.

Theorem pinned_path_walk_refuted :
  let w := @bp_walk Z Witness.Z_scalar RedSum 50 Witness.dh Witness.dy in
  let t := @bp_topo Z Witness.Z_scalar RedSum Witness.ids Witness.dh Witness.dy in
  @snd (@heap Z * nat) (res unit) w = @Ok unit tt /\
  @gradOf Z (@fst (@heap Z) nat (@fst (@heap Z * nat) (res unit) w)) 0 =
  @Some (tensor Z) (Witness.vec2 6 6) /\
  @snd (@heap Z * list (nat * tensor Z)) (res unit) t = @Ok unit tt /\
  @gradOf Z
    (@fst (@heap Z) (list (nat * tensor Z)) (@fst (@heap Z * list (nat * tensor Z)) (res unit) t)) 0 =
  @Some (tensor Z) (Witness.vec2 4 4).
Proof. exact @Witness.walk_refuted. Qed.
Print Assumptions pinned_path_walk_refuted.

Theorem pinned_path_walk_is_exponential :
  @map nat nat Witness.walk_count Witness.depths = [5%nat; 13%nat; 29%nat; 61%nat; 125%nat; 253%nat] /\
  @map nat nat Witness.walk_count Witness.depths =
  @map nat nat (fun d : nat => (2 ^ (d + 2) - 3)%nat) Witness.depths /\
  @map nat nat Witness.topo_count Witness.depths = [4%nat; 8%nat; 12%nat; 16%nat; 20%nat; 24%nat] /\
  @map nat nat Witness.topo_count Witness.depths = @map nat nat Witness.edge_count Witness.depths /\
  @map nat (nat * nat)
    (fun d : nat =>
     let '(h, y) := Witness.chainH d in (@length (@node Z) h, @length nat (@topoOrder Z h y)))
    Witness.depths =
  [(4%nat, 4%nat); (7%nat, 7%nat); (10%nat, 10%nat); (13%nat, 13%nat); (16%nat, 16%nat);
   (19%nat, 19%nat)] /\
  @map nat (res unit * res unit)
    (fun d : nat =>
     let
     '(h, y) := Witness.chainH d in
      (@snd (@heap Z * nat) (res unit) (@bp_walk Z Witness.Z_scalar RedSum 100 h y),
       @snd (@heap Z * list (nat * tensor Z)) (res unit)
         (@fst (@heap Z * list (nat * tensor Z) * res unit) nat
            (@bp_topo_cnt Z Witness.Z_scalar RedSum h y)))) Witness.depths =
  @map nat (res unit * res unit) (fun _ : nat => (@Ok unit tt, @Ok unit tt)) Witness.depths.
Proof. exact @Witness.walk_rule_counts. Qed.
Print Assumptions pinned_path_walk_is_exponential.

Theorem theorem_instantiated_on_the_diamond :
  let r := @bp_topo Z Witness.Z_scalar RedSum Witness.ids Witness.dh Witness.dy in
  forall n : nat,
  @In nat n [4%nat; 3%nat; 2%nat; 1%nat; 0%nat] ->
  @accAll Z Witness.Z_scalar (@gradOf Z Witness.dh n)
    ((if n =? Witness.dy then [Witness.vec2 1 1] else []) ++
     @contributions Z Witness.Z_scalar RedSum
       (@fst (@heap Z) (list (nat * tensor Z)) (@fst (@heap Z * list (nat * tensor Z)) (res unit) r))
       Witness.dh (@topoOrder Z Witness.dh Witness.dy) n) =
  @Some (option (tensor Z))
    (@gradOf Z
       (@fst (@heap Z) (list (nat * tensor Z)) (@fst (@heap Z * list (nat * tensor Z)) (res unit) r)) n).
Proof. exact @Witness.diamond_correct. Qed.
Print Assumptions theorem_instantiated_on_the_diamond.

Theorem reverse_accumulation_is_adjoint_of_tangent_propagation :
  forall (thr : R) (draw : bool -> nat -> R) (rd : bred) (h : @heap R) (root : nat) 
    (h' : @heap R) (lg : list (nat * tensor R)) (D : nat -> nat * @rule R -> list nat -> list nat -> R)
    (x : nat) (dl : assignment) (gx : tensor R),
  @rules_own R h ->
  @wf_heap R h ->
  @trackedOf R h root = true ->
  @bp_topo R (R_scalar thr draw) rd (fun (_ : option nat) (g : tensor R) => g) h root =
  (h', lg, @Ok unit tt) ->
  (forall n : nat, @In nat n (@topoOrder R h root) -> @gradOf R h n = @None (tensor R)) ->
  (forall rv : tensor R, @valOf R h root = @Some (tensor R) rv -> @wf R rv) ->
  TotalDerivP.jac_hyp thr draw rd h root D ->
  @In nat x (@topoOrder R h root) ->
  @gradOf R h' x = @Some (tensor R) gx ->
  sumIdx (TotalDerivP.dimsOf h x) (fun i : list nat => elt gx i * dl i) =
  sumIdx (TotalDerivP.dimsOf h root) (fun k : list nat => TotalDerivP.tang h D x dl root k).
Proof. exact @TotalDerivP.bp_duality. Qed.
Print Assumptions reverse_accumulation_is_adjoint_of_tangent_propagation.

Theorem gradient_is_directional_derivative_of_sum_of_root :
  forall (thr : R) (draw : bool -> nat -> R) (rd : bred) (h : @heap R) (root : nat) 
    (h' : @heap R) (lg : list (nat * tensor R)) (D : nat -> nat * @rule R -> list nat -> list nat -> R)
    (x : nat) (dl : assignment) (gx : tensor R) (val : R -> nat -> assignment),
  @rules_own R h ->
  @wf_heap R h ->
  @trackedOf R h root = true ->
  @bp_topo R (R_scalar thr draw) rd (fun (_ : option nat) (g : tensor R) => g) h root =
  (h', lg, @Ok unit tt) ->
  (forall n : nat, @In nat n (@topoOrder R h root) -> @gradOf R h n = @None (tensor R)) ->
  (forall rv : tensor R, @valOf R h root = @Some (tensor R) rv -> @wf R rv) ->
  TotalDerivP.jac_hyp thr draw rd h root D ->
  @In nat x (@topoOrder R h root) ->
  @gradOf R h' x = @Some (tensor R) gx ->
  (forall n : nat,
   @In nat n (@topoOrder R h root) ->
   (n < x)%nat -> forall (t : R) (j : list nat), val t n j = val 0 n j) ->
  (forall (t : R) (i : list nat), val t x i = val 0 x i + t * dl i) ->
  TotalDerivP.chain_hyp h root D x dl val ->
  @Derive.is_derive Hierarchy.R_AbsRing Hierarchy.R_NormedModule
    (fun t : Hierarchy.AbsRing.sort Hierarchy.R_AbsRing =>
     sumIdx (TotalDerivP.dimsOf h root) (fun k : list nat => val t root k)) 0
    (sumIdx (TotalDerivP.dimsOf h x) (fun i : list nat => elt gx i * dl i)).
Proof. exact @TotalDerivP.bp_total_derivative. Qed.
Print Assumptions gradient_is_directional_derivative_of_sum_of_root.

Theorem gradient_element_is_partial_derivative :
  forall (thr : R) (draw : bool -> nat -> R) (rd : bred) (h : @heap R) (root : nat) 
    (h' : @heap R) (lg : list (nat * tensor R)) (D : nat -> nat * @rule R -> list nat -> list nat -> R)
    (x : nat) (i : list nat) (gx : tensor R) (val : R -> nat -> assignment),
  @rules_own R h ->
  @wf_heap R h ->
  @trackedOf R h root = true ->
  @bp_topo R (R_scalar thr draw) rd (fun (_ : option nat) (g : tensor R) => g) h root =
  (h', lg, @Ok unit tt) ->
  (forall n : nat, @In nat n (@topoOrder R h root) -> @gradOf R h n = @None (tensor R)) ->
  (forall rv : tensor R, @valOf R h root = @Some (tensor R) rv -> @wf R rv) ->
  TotalDerivP.jac_hyp thr draw rd h root D ->
  @In nat x (@topoOrder R h root) ->
  @gradOf R h' x = @Some (tensor R) gx ->
  NdP.validIdx (TotalDerivP.dimsOf h x) i ->
  (forall n : nat,
   @In nat n (@topoOrder R h root) ->
   (n < x)%nat -> forall (t : R) (j : list nat), val t n j = val 0 n j) ->
  (forall (t : R) (k : list nat), val t x k = perturb (val 0 x) i t k) ->
  TotalDerivP.chain_hyp h root D x (TotalDerivP.indic i) val ->
  @Derive.is_derive Hierarchy.R_AbsRing Hierarchy.R_NormedModule
    (fun t : Hierarchy.AbsRing.sort Hierarchy.R_AbsRing =>
     sumIdx (TotalDerivP.dimsOf h root) (fun k : list nat => val t root k)) 0 
    (elt gx i).
Proof. exact @TotalDerivP.bp_partial_derivative. Qed.
Print Assumptions gradient_element_is_partial_derivative.

Theorem chain_rule_at_linear_nodes :
  forall (h : @heap R) (D : nat -> nat * @rule R -> list nat -> list nat -> R)
    (val : R -> nat -> assignment) (dm : nat -> assignment) (n : nat) (e : nat * @rule R)
    (k : assignment),
  @edgesOf R h n = [e] ->
  @trackedOf R h (@fst nat (@rule R) e) = true ->
  (forall (t : R) (j : list nat),
   NdP.validIdx (TotalDerivP.dimsOf h n) j ->
   val t n j =
   sumIdx (TotalDerivP.dimsOf h (@fst nat (@rule R) e))
     (fun i : list nat => D n e i j * val t (@fst nat (@rule R) e) i) + k j) ->
  (forall i : list nat,
   NdP.validIdx (TotalDerivP.dimsOf h (@fst nat (@rule R) e)) i ->
   @Derive.is_derive Hierarchy.R_AbsRing Hierarchy.R_NormedModule
     (fun t : Hierarchy.AbsRing.sort Hierarchy.R_AbsRing => val t (@fst nat (@rule R) e) i) 0
     (dm (@fst nat (@rule R) e) i)) ->
  forall j : list nat,
  NdP.validIdx (TotalDerivP.dimsOf h n) j ->
  @Derive.is_derive Hierarchy.R_AbsRing Hierarchy.R_NormedModule
    (fun t : Hierarchy.AbsRing.sort Hierarchy.R_AbsRing => val t n j) 0 (TotalDerivP.Jt h D dm n j).
Proof. exact @TotalDerivP.chain_node_linear. Qed.
Print Assumptions chain_rule_at_linear_nodes.

Theorem chain_rule_at_elementwise_nodes :
  forall (h : @heap R) (D : nat -> nat * @rule R -> list nat -> list nat -> R)
    (val : R -> nat -> assignment) (dm : nat -> assignment) (n : nat) (e : nat * @rule R) 
    (f : R -> R) (d : assignment),
  @edgesOf R h n = [e] ->
  @trackedOf R h (@fst nat (@rule R) e) = true ->
  TotalDerivP.dimsOf h (@fst nat (@rule R) e) = TotalDerivP.dimsOf h n ->
  (forall i j : list nat, D n e i j = (if idx_eqb i j then d j else 0)) ->
  (forall (t : R) (j : list nat),
   NdP.validIdx (TotalDerivP.dimsOf h n) j -> val t n j = f (val t (@fst nat (@rule R) e) j)) ->
  (forall j : list nat,
   NdP.validIdx (TotalDerivP.dimsOf h n) j ->
   @Derive.is_derive Hierarchy.R_AbsRing Hierarchy.R_NormedModule f (val 0 (@fst nat (@rule R) e) j)
     (d j)) ->
  (forall i : list nat,
   NdP.validIdx (TotalDerivP.dimsOf h (@fst nat (@rule R) e)) i ->
   @Derive.is_derive Hierarchy.R_AbsRing Hierarchy.R_NormedModule
     (fun t : Hierarchy.AbsRing.sort Hierarchy.R_AbsRing => val t (@fst nat (@rule R) e) i) 0
     (dm (@fst nat (@rule R) e) i)) ->
  forall j : list nat,
  NdP.validIdx (TotalDerivP.dimsOf h n) j ->
  @Derive.is_derive Hierarchy.R_AbsRing Hierarchy.R_NormedModule
    (fun t : Hierarchy.AbsRing.sort Hierarchy.R_AbsRing => val t n j) 0 (TotalDerivP.Jt h D dm n j).
Proof. exact @TotalDerivP.chain_node_pointwise. Qed.
Print Assumptions chain_rule_at_elementwise_nodes.

Theorem total_derivative_instantiated_on_sin_then_scale :
  forall (thr : R) (draw : bool -> nat -> R) (rd : bred) (dl : assignment),
  exists (h' : @heap R) (lg : list (nat * tensor R)) (gx : tensor R),
    @bp_topo R (R_scalar thr draw) rd TotalDerivP.TotalDerivExample.ids TotalDerivP.TotalDerivExample.hE
      2 = (h', lg, @Ok unit tt) /\
    @gradOf R h' 0 = @Some (tensor R) gx /\
    @Derive.is_derive Hierarchy.R_AbsRing Hierarchy.R_NormedModule
      (fun t : Hierarchy.AbsRing.sort Hierarchy.R_AbsRing =>
       2 * sin (1 + t * dl [0%nat]) + 2 * sin (2 + t * dl [1%nat])) 0
      (elt gx [0%nat] * dl [0%nat] + elt gx [1%nat] * dl [1%nat]).
Proof. exact @TotalDerivP.TotalDerivExample.ex_total_derivative. Qed.
Print Assumptions total_derivative_instantiated_on_sin_then_scale.

(* ---- Appendix added in the second build session: the chain-rule step at nodes with SEVERAL back edges (Proofs/TotalDeriv2P.v): affine in all operands (Add, Sub, Concat, Patch), element-wise binary (product, quotient), finite sums of products (MatMul, Dot); chain_hyp for a whole graph from a per-node case analysis; instances where the gradient IS the derivative: the diamond x; m = 2x; y = m + m the pinned library got wrong (4, not 6), x*x, c/x, x.MatMul(x^T) ---- *)
From Qeep Require Proofs.TotalDeriv2P.
Theorem chain_rule_at_affine_nodes_with_several_operands :
  forall (h : @heap R) (D : nat -> nat * @rule R -> list nat -> list nat -> R)
    (val : R -> nat -> assignment) (dm : nat -> assignment) (n : nat) (k : assignment),
  (forall (t : R) (j : list nat),
   NdP.validIdx (TotalDerivP.dimsOf h n) j ->
   val t n j =
   @VjpGatherP.lsum (nat * @rule R) (@edgesOf R h n)
     (fun e : nat * @rule R =>
      if @trackedOf R h (@fst nat (@rule R) e)
      then
       sumIdx (TotalDerivP.dimsOf h (@fst nat (@rule R) e))
         (fun i : list nat => D n e i j * val t (@fst nat (@rule R) e) i)
      else 0) + k j) ->
  TotalDeriv2P.ops_diff h val dm n ->
  forall j : list nat,
  NdP.validIdx (TotalDerivP.dimsOf h n) j ->
  @Derive.is_derive Hierarchy.R_AbsRing Hierarchy.R_NormedModule
    (fun t : Hierarchy.AbsRing.sort Hierarchy.R_AbsRing => val t n j) 0 (TotalDerivP.Jt h D dm n j).
Proof. exact @TotalDeriv2P.chain_node_linear_multi. Qed.
Print Assumptions chain_rule_at_affine_nodes_with_several_operands.

Theorem chain_rule_at_elementwise_binary_nodes :
  forall (h : @heap R) (D : nat -> nat * @rule R -> list nat -> list nat -> R)
    (val : R -> nat -> assignment) (dm : nat -> assignment) (n : nat) (e1 e2 : nat * @rule R)
    (f : R -> R -> R) (d1 d2 : assignment),
  @edgesOf R h n = [e1; e2] ->
  TotalDerivP.dimsOf h (@fst nat (@rule R) e1) = TotalDerivP.dimsOf h n ->
  TotalDerivP.dimsOf h (@fst nat (@rule R) e2) = TotalDerivP.dimsOf h n ->
  (forall i j : list nat, D n e1 i j = (if idx_eqb i j then d1 j else 0)) ->
  (forall i j : list nat, D n e2 i j = (if idx_eqb i j then d2 j else 0)) ->
  (forall (t : R) (j : list nat),
   NdP.validIdx (TotalDerivP.dimsOf h n) j ->
   val t n j = f (val t (@fst nat (@rule R) e1) j) (val t (@fst nat (@rule R) e2) j)) ->
  (forall j : list nat,
   NdP.validIdx (TotalDerivP.dimsOf h n) j ->
   TotalDeriv2P.curve_diff2 f (val 0 (@fst nat (@rule R) e1) j) (val 0 (@fst nat (@rule R) e2) j) 
     (d1 j) (d2 j)) ->
  (@trackedOf R h (@fst nat (@rule R) e1) = false -> TotalDeriv2P.frozen h val (@fst nat (@rule R) e1)) ->
  (@trackedOf R h (@fst nat (@rule R) e2) = false -> TotalDeriv2P.frozen h val (@fst nat (@rule R) e2)) ->
  TotalDeriv2P.ops_diff h val dm n ->
  forall j : list nat,
  NdP.validIdx (TotalDerivP.dimsOf h n) j ->
  @Derive.is_derive Hierarchy.R_AbsRing Hierarchy.R_NormedModule
    (fun t : Hierarchy.AbsRing.sort Hierarchy.R_AbsRing => val t n j) 0 (TotalDerivP.Jt h D dm n j).
Proof. exact @TotalDeriv2P.chain_node_pointwise2. Qed.
Print Assumptions chain_rule_at_elementwise_binary_nodes.

Theorem chain_rule_at_product_nodes :
  forall (h : @heap R) (D : nat -> nat * @rule R -> list nat -> list nat -> R)
    (val : R -> nat -> assignment) (dm : nat -> assignment) (n : nat) (e1 e2 : nat * @rule R),
  @edgesOf R h n = [e1; e2] ->
  TotalDerivP.dimsOf h (@fst nat (@rule R) e1) = TotalDerivP.dimsOf h n ->
  TotalDerivP.dimsOf h (@fst nat (@rule R) e2) = TotalDerivP.dimsOf h n ->
  (forall i j : list nat, D n e1 i j = (if idx_eqb i j then val 0 (@fst nat (@rule R) e2) j else 0)) ->
  (forall i j : list nat, D n e2 i j = (if idx_eqb i j then val 0 (@fst nat (@rule R) e1) j else 0)) ->
  (forall (t : R) (j : list nat),
   NdP.validIdx (TotalDerivP.dimsOf h n) j ->
   val t n j = val t (@fst nat (@rule R) e1) j * val t (@fst nat (@rule R) e2) j) ->
  (@trackedOf R h (@fst nat (@rule R) e1) = false -> TotalDeriv2P.frozen h val (@fst nat (@rule R) e1)) ->
  (@trackedOf R h (@fst nat (@rule R) e2) = false -> TotalDeriv2P.frozen h val (@fst nat (@rule R) e2)) ->
  TotalDeriv2P.ops_diff h val dm n ->
  forall j : list nat,
  NdP.validIdx (TotalDerivP.dimsOf h n) j ->
  @Derive.is_derive Hierarchy.R_AbsRing Hierarchy.R_NormedModule
    (fun t : Hierarchy.AbsRing.sort Hierarchy.R_AbsRing => val t n j) 0 (TotalDerivP.Jt h D dm n j).
Proof. exact @TotalDeriv2P.chain_node_mul. Qed.
Print Assumptions chain_rule_at_product_nodes.

Theorem chain_rule_at_quotient_nodes :
  forall (h : @heap R) (D : nat -> nat * @rule R -> list nat -> list nat -> R)
    (val : R -> nat -> assignment) (dm : nat -> assignment) (n : nat) (e1 e2 : nat * @rule R),
  @edgesOf R h n = [e1; e2] ->
  TotalDerivP.dimsOf h (@fst nat (@rule R) e1) = TotalDerivP.dimsOf h n ->
  TotalDerivP.dimsOf h (@fst nat (@rule R) e2) = TotalDerivP.dimsOf h n ->
  (forall i j : list nat, D n e1 i j = (if idx_eqb i j then / val 0 (@fst nat (@rule R) e2) j else 0)) ->
  (forall i j : list nat,
   D n e2 i j =
   (if idx_eqb i j then - val 0 (@fst nat (@rule R) e1) j / val 0 (@fst nat (@rule R) e2) j ^ 2 else 0)) ->
  (forall (t : R) (j : list nat),
   NdP.validIdx (TotalDerivP.dimsOf h n) j ->
   val t n j = val t (@fst nat (@rule R) e1) j / val t (@fst nat (@rule R) e2) j) ->
  (forall j : list nat, NdP.validIdx (TotalDerivP.dimsOf h n) j -> val 0 (@fst nat (@rule R) e2) j <> 0) ->
  (@trackedOf R h (@fst nat (@rule R) e1) = false -> TotalDeriv2P.frozen h val (@fst nat (@rule R) e1)) ->
  (@trackedOf R h (@fst nat (@rule R) e2) = false -> TotalDeriv2P.frozen h val (@fst nat (@rule R) e2)) ->
  TotalDeriv2P.ops_diff h val dm n ->
  forall j : list nat,
  NdP.validIdx (TotalDerivP.dimsOf h n) j ->
  @Derive.is_derive Hierarchy.R_AbsRing Hierarchy.R_NormedModule
    (fun t : Hierarchy.AbsRing.sort Hierarchy.R_AbsRing => val t n j) 0 (TotalDerivP.Jt h D dm n j).
Proof. exact @TotalDeriv2P.chain_node_div. Qed.
Print Assumptions chain_rule_at_quotient_nodes.

Theorem chain_rule_at_bilinear_nodes :
  forall (h : @heap R) (D : nat -> nat * @rule R -> list nat -> list nat -> R)
    (val : R -> nat -> assignment) (dm : nat -> assignment) (n : nat) (e1 e2 : nat * @rule R) 
    (K : nat) (al be : list nat -> nat -> list nat),
  @edgesOf R h n = [e1; e2] ->
  (forall (j : list nat) (k : nat),
   NdP.validIdx (TotalDerivP.dimsOf h n) j ->
   (k < K)%nat -> NdP.validIdx (TotalDerivP.dimsOf h (@fst nat (@rule R) e1)) (al j k)) ->
  (forall (j : list nat) (k : nat),
   NdP.validIdx (TotalDerivP.dimsOf h n) j ->
   (k < K)%nat -> NdP.validIdx (TotalDerivP.dimsOf h (@fst nat (@rule R) e2)) (be j k)) ->
  (forall i j : list nat,
   NdP.validIdx (TotalDerivP.dimsOf h (@fst nat (@rule R) e1)) i ->
   NdP.validIdx (TotalDerivP.dimsOf h n) j ->
   D n e1 i j =
   VjpGatherP.sumN K
     (fun k : nat => if idx_eqb i (al j k) then val 0 (@fst nat (@rule R) e2) (be j k) else 0)) ->
  (forall i j : list nat,
   NdP.validIdx (TotalDerivP.dimsOf h (@fst nat (@rule R) e2)) i ->
   NdP.validIdx (TotalDerivP.dimsOf h n) j ->
   D n e2 i j =
   VjpGatherP.sumN K
     (fun k : nat => if idx_eqb i (be j k) then val 0 (@fst nat (@rule R) e1) (al j k) else 0)) ->
  (forall (t : R) (j : list nat),
   NdP.validIdx (TotalDerivP.dimsOf h n) j ->
   val t n j =
   VjpGatherP.sumN K
     (fun k : nat => val t (@fst nat (@rule R) e1) (al j k) * val t (@fst nat (@rule R) e2) (be j k))) ->
  (@trackedOf R h (@fst nat (@rule R) e1) = false -> TotalDeriv2P.frozen h val (@fst nat (@rule R) e1)) ->
  (@trackedOf R h (@fst nat (@rule R) e2) = false -> TotalDeriv2P.frozen h val (@fst nat (@rule R) e2)) ->
  TotalDeriv2P.ops_diff h val dm n ->
  forall j : list nat,
  NdP.validIdx (TotalDerivP.dimsOf h n) j ->
  @Derive.is_derive Hierarchy.R_AbsRing Hierarchy.R_NormedModule
    (fun t : Hierarchy.AbsRing.sort Hierarchy.R_AbsRing => val t n j) 0 (TotalDerivP.Jt h D dm n j).
Proof. exact @TotalDeriv2P.chain_node_bilinear. Qed.
Print Assumptions chain_rule_at_bilinear_nodes.

Theorem chain_rule_at_matrix_product_nodes :
  forall (h : @heap R) (D : nat -> nat * @rule R -> list nat -> list nat -> R)
    (val : R -> nat -> assignment) (dm : nat -> assignment) (n : nat) (e1 e2 : nat * @rule R)
    (m q p : nat),
  @edgesOf R h n = [e1; e2] ->
  TotalDerivP.dimsOf h (@fst nat (@rule R) e1) = [m; q] ->
  TotalDerivP.dimsOf h (@fst nat (@rule R) e2) = [q; p] ->
  TotalDerivP.dimsOf h n = [m; p] ->
  (forall r k r' c : nat,
   D n e1 [r; k] [r'; c] = (if r =? r' then val 0 (@fst nat (@rule R) e2) [k; c] else 0)) ->
  (forall k c r c' : nat,
   D n e2 [k; c] [r; c'] = (if c =? c' then val 0 (@fst nat (@rule R) e1) [r; k] else 0)) ->
  (forall (t : R) (r c : nat),
   (r < m)%nat ->
   (c < p)%nat ->
   val t n [r; c] =
   VjpGatherP.sumN q
     (fun k : nat => val t (@fst nat (@rule R) e1) [r; k] * val t (@fst nat (@rule R) e2) [k; c])) ->
  (@trackedOf R h (@fst nat (@rule R) e1) = false -> TotalDeriv2P.frozen h val (@fst nat (@rule R) e1)) ->
  (@trackedOf R h (@fst nat (@rule R) e2) = false -> TotalDeriv2P.frozen h val (@fst nat (@rule R) e2)) ->
  TotalDeriv2P.ops_diff h val dm n ->
  forall j : list nat,
  NdP.validIdx (TotalDerivP.dimsOf h n) j ->
  @Derive.is_derive Hierarchy.R_AbsRing Hierarchy.R_NormedModule
    (fun t : Hierarchy.AbsRing.sort Hierarchy.R_AbsRing => val t n j) 0 (TotalDerivP.Jt h D dm n j).
Proof. exact @TotalDeriv2P.chain_node_matmul2. Qed.
Print Assumptions chain_rule_at_matrix_product_nodes.

Theorem chain_rule_for_a_graph_from_its_nodes :
  forall (h : @heap R) (D : nat -> nat * @rule R -> list nat -> list nat -> R)
    (val : R -> nat -> assignment) (root x : nat) (dl : assignment),
  (forall n : nat, @In nat n (@topoOrder R h root) -> (x < n)%nat -> TotalDeriv2P.node_ok h D val n) ->
  TotalDerivP.chain_hyp h root D x dl val.
Proof. exact @TotalDeriv2P.chain_hyp_of_nodes. Qed.
Print Assumptions chain_rule_for_a_graph_from_its_nodes.

Theorem total_derivative_on_the_diamond :
  forall (thr : R) (draw : bool -> nat -> R) (rd : bred) (x0 x1 : R),
  exists (h' : @heap R) (lg : list (nat * tensor R)) (gx : tensor R),
    @bp_topo R (R_scalar thr draw) rd TotalDeriv2P.TotalDeriv2Example.ids
      (TotalDeriv2P.TotalDeriv2Example.hD x0 x1) 4 = (h', lg, @Ok unit tt) /\
    @gradOf R h' 0 = @Some (tensor R) gx /\
    elt gx [0%nat] = 4 /\
    elt gx [1%nat] = 4 /\
    (forall dl : assignment,
     @Derive.is_derive Hierarchy.R_AbsRing Hierarchy.R_NormedModule
       (fun t : Hierarchy.AbsRing.sort Hierarchy.R_AbsRing =>
        2 * (x0 + t * dl [0%nat]) + 2 * (x0 + t * dl [0%nat]) +
        (2 * (x1 + t * dl [1%nat]) + 2 * (x1 + t * dl [1%nat]))) 0
       (elt gx [0%nat] * dl [0%nat] + elt gx [1%nat] * dl [1%nat])).
Proof. exact @TotalDeriv2P.TotalDeriv2Example.diamond_gradient. Qed.
Print Assumptions total_derivative_on_the_diamond.

Theorem total_derivative_of_the_square :
  forall (thr : R) (draw : bool -> nat -> R) (rd : bred) (x0 x1 : R),
  exists (h' : @heap R) (lg : list (nat * tensor R)) (gx : tensor R),
    @bp_topo R (R_scalar thr draw) rd TotalDeriv2P.TotalDeriv2Example.ids
      (TotalDeriv2P.TotalDeriv2Example.hM x0 x1) 3 = (h', lg, @Ok unit tt) /\
    @gradOf R h' 0 = @Some (tensor R) gx /\
    elt gx [0%nat] = 2 * x0 /\
    elt gx [1%nat] = 2 * x1 /\
    (forall dl : assignment,
     @Derive.is_derive Hierarchy.R_AbsRing Hierarchy.R_NormedModule
       (fun t : Hierarchy.AbsRing.sort Hierarchy.R_AbsRing =>
        (x0 + t * dl [0%nat]) * (x0 + t * dl [0%nat]) + (x1 + t * dl [1%nat]) * (x1 + t * dl [1%nat])) 0
       (elt gx [0%nat] * dl [0%nat] + elt gx [1%nat] * dl [1%nat])).
Proof. exact @TotalDeriv2P.TotalDeriv2Example.square_gradient. Qed.
Print Assumptions total_derivative_of_the_square.

Theorem total_derivative_of_a_quotient :
  forall (thr : R) (draw : bool -> nat -> R) (rd : bred) (x0 x1 c0 c1 : R),
  x0 <> 0 ->
  x1 <> 0 ->
  exists (h' : @heap R) (lg : list (nat * tensor R)) (gx : tensor R),
    @bp_topo R (R_scalar thr draw) rd TotalDeriv2P.TotalDeriv2Example.ids
      (TotalDeriv2P.TotalDeriv2Example.hQ x0 x1 c0 c1) 4 = (h', lg, @Ok unit tt) /\
    @gradOf R h' 0 = @Some (tensor R) gx /\
    elt gx [0%nat] = - c0 / x0 ^ 2 /\
    elt gx [1%nat] = - c1 / x1 ^ 2 /\
    (forall dl : assignment,
     @Derive.is_derive Hierarchy.R_AbsRing Hierarchy.R_NormedModule
       (fun t : Hierarchy.AbsRing.sort Hierarchy.R_AbsRing =>
        c0 / (x0 + t * dl [0%nat]) + c1 / (x1 + t * dl [1%nat])) 0
       (elt gx [0%nat] * dl [0%nat] + elt gx [1%nat] * dl [1%nat])).
Proof. exact @TotalDeriv2P.TotalDeriv2Example.quot_gradient. Qed.
Print Assumptions total_derivative_of_a_quotient.

Theorem total_derivative_of_the_gram_product :
  forall (thr : R) (draw : bool -> nat -> R) (rd : bred) (x0 x1 : R),
  exists (h' : @heap R) (lg : list (nat * tensor R)) (gx : tensor R),
    @bp_topo R (R_scalar thr draw) rd TotalDeriv2P.TotalDeriv2Example.ids
      (TotalDeriv2P.TotalDeriv2Example.hT x0 x1) 4 = (h', lg, @Ok unit tt) /\
    @gradOf R h' 0 = @Some (tensor R) gx /\
    elt gx [0%nat; 0%nat] = 2 * x0 /\
    elt gx [0%nat; 1%nat] = 2 * x1 /\
    (forall dl : assignment,
     @Derive.is_derive Hierarchy.R_AbsRing Hierarchy.R_NormedModule
       (fun t : Hierarchy.AbsRing.sort Hierarchy.R_AbsRing =>
        (x0 + t * dl [0%nat; 0%nat]) * (x0 + t * dl [0%nat; 0%nat]) +
        (x1 + t * dl [0%nat; 1%nat]) * (x1 + t * dl [0%nat; 1%nat])) 0
       (elt gx [0%nat; 0%nat] * dl [0%nat; 0%nat] + elt gx [0%nat; 1%nat] * dl [0%nat; 1%nat])).
Proof. exact @TotalDeriv2P.TotalDeriv2Example.gram_gradient. Qed.
Print Assumptions total_derivative_of_the_gram_product.
