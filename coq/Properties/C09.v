(* C09 — Every public call is total: a well-formed result or an error, never a panic.
   Statements only.  (1) Each validator of tensor/internal/validator returns nil EXACTLY when the
   declarative precondition of Spec/ValidSpec.v holds, for ALL integer arguments (Proofs/ValidP.v).
   (2) For well-formed operands each public call is Ok exactly under that precondition, Err
   otherwise and never Panic, and an Ok result is well formed with the defined shape
   (Proofs/SliceP.v, ReshapeP.v, BroadcastP.v, ReduceP.v, ConcatP.v, ElemP.v, ValidP.v, InitP.v).
   In the model every Go type assertion / index expression of the data layer is partial
   ([None] = would panic), so "never Panic" is exactly "every data-layer access is covered by the
   preceding validator". *)
From Coq Require Import List ZArith Bool.
From Qeep Require Import Model.Scalar Model.Nd Model.Data Model.Valid Model.Api Model.Grad Model.Components.
From Qeep Require Import Proofs.NdP Proofs.ElemP Proofs.SliceP Proofs.OdometerP Proofs.ReshapeP Proofs.BroadcastP Proofs.ReduceP Proofs.ConcatP Spec.ValidSpec Proofs.ValidP Proofs.InitP Proofs.InitRP.
Import ListNotations.

Theorem validateInputDims_iff :
  forall dims : list Z, validateInputDims dims = true <-> inputDimsPre dims.
Proof. exact @ValidP.validateInputDims_spec. Qed.
Print Assumptions validateInputDims_iff.

Theorem validateAtIndex_iff :
  forall index dims : list Z, validateAtIndexAgainstDims index dims = true <-> atIndexPre index dims.
Proof. exact @validateAtIndexAgainstDims_spec. Qed.
Print Assumptions validateAtIndex_iff.

Theorem validateSliceIndex_iff :
  forall (index : list zrange) (dims : list Z),
  validateSliceIndexAgainstDims index dims = true <-> sliceIndexPre index dims.
Proof. exact @validateSliceIndexAgainstDims_spec. Qed.
Print Assumptions validateSliceIndex_iff.

Theorem validatePatchIndex_iff :
  forall (index : list zrange) (src dst : list Z),
  validatePatchIndexAgainstDims index src dst = true <-> patchIndexPre index src dst.
Proof. exact @validatePatchIndexAgainstDims_spec. Qed.
Print Assumptions validatePatchIndex_iff.

Theorem validateConcat_iff :
  forall (base : list Z) (rest : list (list Z)) (dim : Z),
  validateConcatTensorsDimsAlongDim (base :: rest) dim = Some true <-> concatPre base rest dim.
Proof. exact @validateConcat_spec. Qed.
Print Assumptions validateConcat_iff.

Theorem validateConcat_none_only_for_empty :
  forall (tsDims : list (list Z)) (dim : Z),
  validateConcatTensorsDimsAlongDim tsDims dim = None <-> tsDims = [].
Proof. exact @validateConcat_none. Qed.
Print Assumptions validateConcat_none_only_for_empty.

Theorem validateBinaryDimsMatch_iff :
  forall d1 d2 : list Z, validateBinaryFuncDimsMatch d1 d2 = true <-> sameDimsPre d1 d2.
Proof. exact @ValidP.validateBinaryFuncDimsMatch_spec. Qed.
Print Assumptions validateBinaryDimsMatch_iff.

Theorem validateDot_iff :
  forall d1 d2 : list Z, validateDotProductDims d1 d2 = true <-> dotPre d1 d2.
Proof. exact @validateDotProductDims_spec. Qed.
Print Assumptions validateDot_iff.

Theorem validateMatMul_iff :
  forall d1 d2 : list Z, validateMatMulDims d1 d2 = true <-> matMulPre d1 d2.
Proof. exact @validateMatMulDims_spec. Qed.
Print Assumptions validateMatMul_iff.

Theorem validateReducedDim_iff :
  forall (dim : Z) (dims : list Z), validateReducedDimAgainstDims dim dims = true <-> axisPre dim dims.
Proof. exact @validateReducedDimAgainstDims_spec. Qed.
Print Assumptions validateReducedDim_iff.

Theorem validateFlatten_iff :
  forall (dim : Z) (dims : list Z), validateFlattenDim dim dims = true <-> axisPre dim dims.
Proof. exact @validateFlattenDim_spec. Qed.
Print Assumptions validateFlatten_iff.

Theorem validateUnSqueeze_iff :
  forall (dim : Z) (dims : list Z), validateUnSqueezeDim dim dims = true <-> unSqueezePre dim dims.
Proof. exact @validateUnSqueezeDim_spec. Qed.
Print Assumptions validateUnSqueeze_iff.

Theorem validateSqueeze_iff :
  forall (dim : Z) (dims : list Z), validateSqueezeDim dim dims = true <-> squeezePre dim dims.
Proof. exact @validateSqueezeDim_spec. Qed.
Print Assumptions validateSqueeze_iff.

Theorem validateTranspose_iff :
  forall dims : list Z, validateTransposeDims dims = true <-> transposePre dims.
Proof. exact @validateTransposeDims_spec. Qed.
Print Assumptions validateTranspose_iff.

Theorem validateReshape_iff :
  forall src dst : list Z, validateReshape src dst = true <-> reshapePre src dst.
Proof. exact @validateReshape_spec. Qed.
Print Assumptions validateReshape_iff.

Theorem validateBroadcast_iff :
  forall src dst : list Z, validateBroadcast src dst = true <-> broadcastPre src dst.
Proof. exact @validateBroadcast_spec. Qed.
Print Assumptions validateBroadcast_iff.

Theorem tensorOf_data_validator_iff :
  forall (A : Type) (x : nd A), dataUnity x = true <-> dataPre x.
Proof. exact @dataUnity_spec. Qed.
Print Assumptions tensorOf_data_validator_iff.

Theorem init_config_validator_iff :
  forall (dUniL dUniU dNorS : dec) (s : initSpec),
  init_valid dUniL dUniU dNorS s = true <-> initPre dUniL dUniU dNorS s.
Proof. exact @init_valid_spec. Qed.
Print Assumptions init_config_validator_iff.

Theorem loss_argument_check_iff :
  forall (A : Type) (h : @heap A) (yp yt : targ) (p t : nat),
  @lossArgs1 A h yp yt = @Some (nat * nat) (p, t) <-> @lossArgs1Pre A h yp yt p t.
Proof. exact @lossArgs1_spec. Qed.
Print Assumptions loss_argument_check_iff.

Theorem one_input_check_iff :
  forall (xs : list targ) (x : nat), oneInput xs = Some x <-> oneInputPre xs x.
Proof. exact @oneInput_spec. Qed.
Print Assumptions one_input_check_iff.

Theorem decimal_comparison_iff :
  forall a b : dec, dec_lt a b = true <-> decLt a b.
Proof. exact @dec_lt_spec. Qed.
Print Assumptions decimal_comparison_iff.

Theorem full_total :
  forall (A : Type) (ds : list Z) (v : A),
  (v_full ds v = Err <-> Exists (fun d : Z => (d <= 0)%Z) ds) /\
  (~ Exists (fun d : Z => (d <= 0)%Z) ds ->
   exists t : tensor A,
     v_full ds v = Ok t /\
     wf t /\
     dims t = natsOf ds /\ (forall idx : list nat, validIdx (dims t) idx -> get (data t) idx = Some v)) /\
  v_full ds v <> Panic.
Proof. exact @v_full_total. Qed.
Print Assumptions full_total.

Theorem eye_total :
  forall (A : Type) (SA : Scalar A) (n : Z),
  (v_eye n = Err <-> (n <= 0)%Z) /\
  ((0 < n)%Z ->
   exists t : tensor A,
     v_eye n = Ok t /\
     wf t /\
     dims t = [Z.to_nat n; Z.to_nat n] /\
     (forall i j : nat, i < Z.to_nat n -> j < Z.to_nat n -> get (data t) [i; j] = Some (eyeElem i j))) /\
  v_eye n <> Panic.
Proof. exact @v_eye_total. Qed.
Print Assumptions eye_total.

Theorem tensorOf_total :
  forall (A : Type) (x : nd A),
  (v_tensorOf x = Err <-> ~ dataPre x) /\
  (dataPre x -> exists t : tensor A, v_tensorOf x = Ok t /\ wf t /\ dims t = shapeOf x /\ data t = x) /\
  v_tensorOf x <> Panic.
Proof. exact @v_tensorOf_total. Qed.
Print Assumptions tensorOf_total.

Theorem randu_total :
  forall (A : Type) (SA : Scalar A) (ds : list Z) (l u : A) (lt_ok : bool) (pos : nat),
  v_randu ds l u lt_ok pos =
  (if lt_ok && validateInputDims ds
   then
    Ok
      {|
        dims := natsOf ds;
        data :=
          tab (natsOf ds)
            (fun idx : list nat => sadd (smul (srnd false (pos + flatIdx (natsOf ds) idx)) (ssub u l)) l)
      |}
   else Err).
Proof. exact @v_randu_spec. Qed.
Print Assumptions randu_total.

Theorem randn_total :
  forall (A : Type) (SA : Scalar A) (ds : list Z) (m s : A) (pos_ok : bool) (pos : nat),
  v_randn ds m s pos_ok pos =
  (if pos_ok && validateInputDims ds
   then
    Ok
      {|
        dims := natsOf ds;
        data :=
          tab (natsOf ds)
            (fun idx : list nat => sadd (smul (srnd true (pos + flatIdx (natsOf ds) idx)) s) m)
      |}
   else Err).
Proof. exact @v_randn_spec. Qed.
Print Assumptions randn_total.

Theorem at_total :
  forall (A : Type) (t : tensor A) (index : list Z) (a : A),
  wf t ->
  (v_at t index = Ok a <->
   Forall2 (fun (i : Z) (d : nat) => (0 <= i < Z.of_nat d)%Z) index (dims t) /\
   get (data t) (natsOf index) = Some a) /\ v_at t index <> Panic.
Proof. exact @v_at_ok_iff. Qed.
Print Assumptions at_total.

Theorem slice_total :
  forall (A : Type) (t : tensor A) (index : list zrange),
  wf t ->
  ((exists r : tensor A, v_slice t index = Ok r) <-> zsliceOk index (dims t)) /\
  v_slice t index <> Panic.
Proof. exact @v_slice_ok_iff. Qed.
Print Assumptions slice_total.

Theorem patch_total :
  forall (A : Type) (t u : tensor A) (index : list zrange),
  wf t ->
  wf u ->
  ((exists r : tensor A, v_patch t index u = Ok r) <->
   Forall2 le (dims u) (dims t) /\ zpatchOk index (dims u) (dims t)) /\ v_patch t index u <> Panic.
Proof. exact @v_patch_ok_iff. Qed.
Print Assumptions patch_total.

Theorem reshape_total :
  forall (A : Type) (t : tensor A) (shape : list Z),
  wf t ->
  (validateInputDims shape && validateReshape (zdims t) shape = true ->
   exists r : tensor A, v_reshape t shape = Ok r /\ reshaped A t r (natsOf shape)) /\
  (validateInputDims shape && validateReshape (zdims t) shape = false -> v_reshape t shape = Err).
Proof. exact @v_reshape_spec. Qed.
Print Assumptions reshape_total.

Theorem unsqueeze_total :
  forall (A : Type) (t : tensor A) (dim : Z),
  wf t ->
  (validateUnSqueezeDim dim (zdims t) = true ->
   exists r : tensor A,
     v_unsqueeze t dim = Ok r /\ reshaped A t r (unsqueezeDims (Z.to_nat dim) (dims t))) /\
  (validateUnSqueezeDim dim (zdims t) = false -> v_unsqueeze t dim = Err).
Proof. exact @v_unsqueeze_spec. Qed.
Print Assumptions unsqueeze_total.

Theorem squeeze_total :
  forall (A : Type) (t : tensor A) (dim : Z),
  wf t ->
  (validateSqueezeDim dim (zdims t) = true ->
   exists r : tensor A, v_squeeze t dim = Ok r /\ reshaped A t r (squeezeDims (Z.to_nat dim) (dims t))) /\
  (validateSqueezeDim dim (zdims t) = false -> v_squeeze t dim = Err).
Proof. exact @v_squeeze_spec. Qed.
Print Assumptions squeeze_total.

Theorem flatten_total :
  forall (A : Type) (t : tensor A) (dim : Z),
  wf t ->
  (validateFlattenDim dim (zdims t) = true ->
   exists r : tensor A, v_flatten t dim = Ok r /\ reshaped A t r (flattenDims (Z.to_nat dim) (dims t))) /\
  (validateFlattenDim dim (zdims t) = false -> v_flatten t dim = Err).
Proof. exact @v_flatten_spec. Qed.
Print Assumptions flatten_total.

Theorem broadcast_total :
  forall (A : Type) (t : tensor A) (shape : list Z),
  wf t ->
  (validateInputDims shape && validateBroadcast (zdims t) shape = true ->
   exists r : tensor A, v_broadcast t shape = Ok r /\ broadcasted A t r (natsOf shape)) /\
  (validateInputDims shape && validateBroadcast (zdims t) shape = false -> v_broadcast t shape = Err).
Proof. exact @v_broadcast_spec. Qed.
Print Assumptions broadcast_total.

Theorem reduce_total :
  forall (A : Type) (SA : Scalar A) (t : tensor A),
  wf t -> forall rd : reducer, exists a : A, v_reduce rd t = Ok a.
Proof. exact @v_reduce_total. Qed.
Print Assumptions reduce_total.

Theorem reduceAlong_total :
  forall (A : Type) (SA : Scalar A) (rd : reducer) (t : tensor A) (dim : Z),
  wf t ->
  ((0 <= dim < Z.of_nat (length (dims t)))%Z ->
   exists r : tensor A,
     v_reduceAlong rd t dim = Ok r /\
     reduceAlong rd t (Z.to_nat dim) = Some r /\ dims r = squeezeDims (Z.to_nat dim) (dims t) /\ wf r) /\
  (~ (0 <= dim < Z.of_nat (length (dims t)))%Z -> v_reduceAlong rd t dim = Err).
Proof. exact @v_reduceAlong_spec. Qed.
Print Assumptions reduceAlong_total.

Theorem reduceAlong_never_panics :
  forall (A : Type) (SA : Scalar A) (rd : reducer) (t : tensor A) (dim : Z),
  wf t -> v_reduceAlong rd t dim <> Panic.
Proof. exact @v_reduceAlong_never_panics. Qed.
Print Assumptions reduceAlong_never_panics.

Theorem concat_total :
  forall (A : Type) (ts : list (tensor A)) (dim : Z),
  Forall wf ts ->
  (length ts < 2 -> v_concat ts dim = Err) /\
  (2 <= length ts ->
   (ConcatP.concatPre ts dim ->
    exists r : tensor A,
      v_concat ts dim = Ok r /\
      concatD ts (Z.to_nat dim) = Some r /\ getConcatDims ts (Z.to_nat dim) = Some (dims r) /\ wf r) /\
   (~ ConcatP.concatPre ts dim -> v_concat ts dim = Err)).
Proof. exact @ConcatP.v_concat_spec. Qed.
Print Assumptions concat_total.

Theorem concat_never_panics :
  forall (A : Type) (ts : list (tensor A)) (dim : Z), Forall wf ts -> v_concat ts dim <> Panic.
Proof. exact @v_concat_never_panics. Qed.
Print Assumptions concat_never_panics.

Theorem unary_total :
  forall (A : Type) (SA : Scalar A) (u : unary) (t : tensor A),
  wf t ->
  exists r : tensor A,
    v_unary u t = Ok r /\
    dims r = dims t /\
    wf r /\
    (forall idx : list nat,
     validIdx (dims t) idx -> get (data r) idx = option_map (unaryF u) (get (data t) idx)).
Proof. exact @v_unary_spec. Qed.
Print Assumptions unary_total.

Theorem comparison_elmax_elmin_total :
  forall (A : Type) (SA : Scalar A) (b : binary) (t u : tensor A),
  wf t ->
  wf u -> ((exists r : tensor A, v_same b t u = Ok r) <-> dims t = dims u) /\ v_same b t u <> Panic.
Proof. exact @v_same_ok_iff. Qed.
Print Assumptions comparison_elmax_elmin_total.

Theorem equals_total :
  forall (A : Type) (SA : Scalar A) (t u : tensor A),
  wf t ->
  wf u ->
  (dims t = dims u ->
   v_equals t u =
   Ok (sgeb (fold_left sadd (map2 seqt (flat (data t)) (flat (data u))) s0) (sofnat (prodn (dims t))))) /\
  (dims t <> dims u -> v_equals t u = Err).
Proof. exact @v_equals_spec. Qed.
Print Assumptions equals_total.

Theorem implicit_broadcast_total :
  forall (A : Type) (t u : tensor A),
  wf t ->
  wf u ->
  let target := targetBroadcastDims (dims t) (dims u) in
  (bcompat2 (dims t) (dims u) ->
   exists t1 u1 : tensor A,
     v_bcast2 t u = Ok (t1, u1) /\ broadcasted A t t1 target /\ broadcasted A u u1 target) /\
  (~ bcompat2 (dims t) (dims u) -> v_bcast2 t u = Err).
Proof. exact @v_bcast2_spec. Qed.
Print Assumptions implicit_broadcast_total.

Theorem initializer_total :
  forall (A : Type) (SA : Scalar A) (dFull dUniL dUniU dNorM dNorS : dec) (h : heap) 
    (s : initSpec) (shape : list Z) (pos : nat) (name : option nat),
  init_valid dUniL dUniU dNorS s = true ->
  validateInputDims shape = true ->
  exists t : tensor A,
    init_value dFull dUniL dUniU dNorM dNorS s shape pos = Ok t /\
    init_run dFull dUniL dUniU dNorM dNorS h s shape pos name =
    (h ++
     [{| nval := t; ntracked := true; ndirty := false; ngrad := None; nedges := []; nname := name |}],
     Ok (length h), if init_is_random s then pos + prodn (natsOf shape) else pos) /\
    dims t = natsOf shape.
Proof. exact @init_run_spec. Qed.
Print Assumptions initializer_total.

Theorem initializer_rejects :
  forall (A : Type) (SA : Scalar A) (dFull dUniL dUniU dNorM dNorS : dec) (h : heap) 
    (s : initSpec) (shape : list Z) (pos : nat) (name : option nat),
  init_valid dUniL dUniU dNorS s = false \/ validateInputDims shape = false ->
  init_run dFull dUniL dUniU dNorM dNorS h s shape pos name = (h, Err, pos).
Proof. exact @init_run_rejects. Qed.
Print Assumptions initializer_rejects.
