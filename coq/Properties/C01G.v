(* C01G — source tie BY TRANSLATION for the autograd core (tensor/internal/gradtrack) — back-propagation itself: the translated backward IS bp_topo (the algorithm the C01 theorems are about), the translated topologicalOrder IS the DFS post-order with exactly its nodes marked spent.
   Statements only (proofs: Proofs/Heap*P.v).  Model/GoGrad.v is REGENERATED from /repo's Go sources on every run by
   harness/gox: back_propagation.go (backward, topologicalOrder with its recursive closure, accumulateGrad),
   gradtrack.go (anyIsBPDirty, nonIsTracked) and every gradient-context constructor of gradients.go are programs of
   the imperative language of Model/DataIR.v in which tensors and contexts are node ids and every access to them is a
   call of the oracle Model/HeapExt.v ([hext]: c.tracked = ntracked, c.bpdirty = ndirty, c.gradient = ngrad,
   c.backEdges = nedges, e.gradFn() = eval_rule of that back edge — justified closure by closure in Properties/C02S.v).
   Each theorem says that RUNNING the translated program on a model heap returns exactly what the hand-written model
   (Model/Backprop.v, Model/Grad.v) computes, for ALL well-formed heaps.  Closed under the global context. *)
From Coq Require Import String List ZArith Bool Arith.
From Qeep Require Import Model.Scalar Model.Nd Model.Fill Model.Data Model.Valid Model.Api Model.Grad Model.Backprop Model.DataIR Model.HeapExt.
From Qeep Require Model.GoGrad.
From Qeep Require Import Proofs.DataIRP.
From Qeep Require Proofs.BackpropP Proofs.HeapAccP Proofs.HeapTopoP Proofs.HeapBackP Proofs.HeapCtorP Proofs.HeapBcastP.
Import ListNotations.
Local Open Scope string_scope.

Theorem backward_program_is_bp_topo :
  forall (A : Type) (SA : Scalar A) (fapp : string -> list A -> option A) (rd : bred) 
    (h : heap) (root fuel depth : nat),
  BackpropP.wf_heap h ->
  root < Datatypes.length h ->
  HeapBackP.bspec (bp_topo rd (fun (_ : option nat) (g : tensor A) => g) h root)
    (drun fapp heap (hext rd) GoGrad.g_backward fuel depth
       [DL [DI (Z.of_nat root); DI (Z.of_nat root); DI (-1)]] h).
Proof. exact @HeapBackP.backward_bp_topo. Qed.
Print Assumptions backward_program_is_bp_topo.

Theorem backward_on_success_leaves_the_models_heap :
  forall (A : Type) (SA : Scalar A) (fapp : string -> list A -> option A) (rd : bred) 
    (h : heap) (root fuel depth : nat) (h' : heap) (log : list (nat * tensor A)),
  BackpropP.wf_heap h ->
  root < Datatypes.length h ->
  bp_topo rd (fun (_ : option nat) (g : tensor A) => g) h root = (h', log, Ok tt) ->
  exists g l : denv,
    drun fapp heap (hext rd) GoGrad.g_backward fuel depth
      [DL [DI (Z.of_nat root); DI (Z.of_nat root); DI (-1)]] h = DRet heap [DI 0] h' g l.
Proof. exact @HeapBackP.backward_ok. Qed.
Print Assumptions backward_on_success_leaves_the_models_heap.

Theorem backward_from_untracked_root_changes_nothing :
  forall (A : Type) (SA : Scalar A) (fapp : string -> list A -> option A) (rd : bred) 
    (h : heap) (root fuel depth : nat),
  root < Datatypes.length h ->
  trackedOf h root = false ->
  exists g l : denv,
    drun fapp heap (hext rd) GoGrad.g_backward fuel depth
      [DL [DI (Z.of_nat root); DI (Z.of_nat root); DI (-1)]] h = DRet heap [DI 0] h g l.
Proof. exact @HeapBackP.backward_untracked. Qed.
Print Assumptions backward_from_untracked_root_changes_nothing.

Theorem backward_error_outcome :
  forall (A : Type) (SA : Scalar A) (fapp : string -> list A -> option A) (rd : bred) 
    (h : heap) (root fuel depth : nat) (h' : heap) (log : list (nat * tensor A)),
  BackpropP.wf_heap h ->
  root < Datatypes.length h ->
  bp_topo rd (fun (_ : option nat) (g : tensor A) => g) h root = (h', log, Err) ->
  exists (h'' : heap) (g l : denv),
    drun fapp heap (hext rd) GoGrad.g_backward fuel depth
      [DL [DI (Z.of_nat root); DI (Z.of_nat root); DI (-1)]] h = DRet heap [DI 1] h'' g l /\
    HeapBackP.errHeap h' h''.
Proof. exact @HeapBackP.backward_err. Qed.
Print Assumptions backward_error_outcome.

Theorem backward_panic_outcome :
  forall (A : Type) (SA : Scalar A) (fapp : string -> list A -> option A) (rd : bred) 
    (h : heap) (root fuel depth : nat) (h' : heap) (log : list (nat * tensor A)),
  BackpropP.wf_heap h ->
  root < Datatypes.length h ->
  bp_topo rd (fun (_ : option nat) (g : tensor A) => g) h root = (h', log, Panic) ->
  drun fapp heap (hext rd) GoGrad.g_backward fuel depth
    [DL [DI (Z.of_nat root); DI (Z.of_nat root); DI (-1)]] h = DPanic heap.
Proof. exact @HeapBackP.backward_panic. Qed.
Print Assumptions backward_panic_outcome.

Theorem topologicalOrder_program_is_topoOrder_and_marks_it_spent :
  forall (A : Type) (SA : Scalar A) (fapp : string -> list A -> option A) (rd : bred) 
    (h : heap) (root fuel depth : nat),
  BackpropP.wf_heap h ->
  root < Datatypes.length h ->
  depth > root + 1 ->
  fuel > Datatypes.length h ->
  exists g l : denv,
    drun fapp heap (hext rd) GoGrad.g_topologicalOrder fuel depth [DI (Z.of_nat root)] h =
    DRet heap [DL (map (fun i : nat => DI (Z.of_nat i)) (topoOrder h root))]
      (markDirty h (topoOrder h root)) g l.
Proof. exact @HeapTopoP.heap_topologicalOrder. Qed.
Print Assumptions topologicalOrder_program_is_topoOrder_and_marks_it_spent.

Theorem topologicalOrder_agrees_with_its_oracle_entry :
  forall (A : Type) (SA : Scalar A) (fapp : string -> list A -> option A) (rd : bred) 
    (h : heap) (root fuel depth : nat),
  BackpropP.wf_heap h ->
  depth > root + 1 ->
  fuel > Datatypes.length h ->
  match hext rd "topologicalOrder" [DI (Z.of_nat root)] h with
  | Some (rs, h') =>
      exists g l : denv,
        drun fapp heap (hext rd) GoGrad.g_topologicalOrder fuel depth [DI (Z.of_nat root)] h =
        DRet heap rs h' g l
  | None =>
      drun fapp heap (hext rd) GoGrad.g_topologicalOrder fuel depth [DI (Z.of_nat root)] h = DPanic heap
  end.
Proof. exact @HeapTopoP.heap_topologicalOrder_oracle. Qed.
Print Assumptions topologicalOrder_agrees_with_its_oracle_entry.

Theorem visit_closure_is_dfs :
  forall (A : Type) (SA : Scalar A) (fapp : string -> list A -> option A) (rd : bred) 
    (h : heap) (fuel f d n : nat) (st : list nat * list nat) (g : denv),
  BackpropP.wf_heap h ->
  n < f ->
  f <= d ->
  n < Datatypes.length h ->
  dlookup g "visited" = Some (DL (map (fun i : nat => DI (Z.of_nat i)) (rev (fst st)))) ->
  dlookup g "order" = Some (DL (map (fun i : nat => DI (Z.of_nat i)) (rev (snd st)))) ->
  exists g' : denv,
    callLD fapp heap (hext rd) (plocals GoGrad.g_topologicalOrder) fuel d "visit" [
      DI (Z.of_nat n)] (markDirty h (fst st)) g = CRet heap [] (markDirty h (fst (dfs f h n st))) g' /\
    dlookup g' "visited" = Some (DL (map (fun i : nat => DI (Z.of_nat i)) (rev (fst (dfs f h n st))))) /\
    dlookup g' "order" = Some (DL (map (fun i : nat => DI (Z.of_nat i)) (rev (snd (dfs f h n st))))).
Proof. exact @HeapTopoP.heap_visit. Qed.
Print Assumptions visit_closure_is_dfs.

Theorem accumulateGrad_agrees_with_its_oracle_entry :
  forall (A : Type) (SA : Scalar A) (fapp : string -> list A -> option A) (rd : bred) 
    (fuel depth : nat) (h : heap) (n : nat) (g : tensor A),
  n < Datatypes.length h ->
  let args := [DI (Z.of_nat n); embT g] in
  HeapAccP.agrees (drun fapp heap (hext rd) GoGrad.g_accumulateGrad fuel depth args h)
    (hext rd "accumulateGrad" args h).
Proof. exact @HeapAccP.accumulateGrad_agrees. Qed.
Print Assumptions accumulateGrad_agrees_with_its_oracle_entry.

Theorem accumulateGrad_program_is_accumulate :
  forall (A : Type) (SA : Scalar A) (fapp : string -> list A -> option A) (rd : bred) 
    (fuel depth : nat) (h : heap) (n : nat) (g : tensor A),
  n < Datatypes.length h ->
  let run := drun fapp heap (hext rd) GoGrad.g_accumulateGrad fuel depth [DI (Z.of_nat n); embT g] h in
  let (h', r) := accumulate h n g in
  match r with
  | Ok _ => exists g' l' : denv, run = DRet heap [DI 0] h' g' l'
  | Err => exists g' l' : denv, run = DRet heap [DI 1] (setGrad h n None) g' l'
  | Panic => run = DPanic heap
  end.
Proof. exact @HeapAccP.accumulateGrad_run. Qed.
Print Assumptions accumulateGrad_program_is_accumulate.
