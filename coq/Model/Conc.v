(* Conc.v — the shared-prefix model of concurrent use (C20, model part).  Definitions only.

   WHAT IS MODELLED.  A set of goroutines is started in a common state [s0] (heap of tensors,
   environment of API objects, position of the random source).  The heap prefix of length
   [n0 := length (st_heap s0)] and the environment prefix of length [e0 := length (st_env s0)]
   are SHARED: every goroutine holds pointers to these tensors / objects.  Everything a goroutine
   allocates afterwards (results of its calls, internal tensors of composite operations, the
   objects it creates) is PRIVATE to it: no other goroutine has a pointer to it.  Accordingly a
   goroutine is its program (a list of [cmd]) interpreted by the sequential interpreter
   [step] / [run_from] from its own copy of [s0]; node ids >= n0 and names >= e0 denote its private
   objects (the same number in two goroutines denotes two different objects).
     The proviso of the property — a goroutine runs arbitrary forward computations on shared
   tensors, but back-propagates into / resets / stores into only its own private objects — is the
   decidable predicate [safe n0 e0 s c] on (current state, next command):
     * BackPropagate(t): every tensor whose gradient context the pass touches (the reverse
       post-order [topoOrder] from t, i.e. every tracked tensor reachable from t over back edges)
       is private;
     * ResetGradContext on t: t is private;
     * the mutating component calls (FC weight/bias assignment, SGD Update(&cell), Accuracy
       Accumulate) act on a private object.
   ConcP.v proves that under this proviso EVERY field of every shared node (value, tracking flag,
   spent flag, gradient, back edges, name) and every shared environment entry is identical in
   every state the goroutine ever reaches ([shared_heap_frame], [run_safe_shared]).  Since no
   goroutine ever writes the shared prefix, each of them reads the same immutable prefix [s0]
   whatever the others do, which is what justifies interpreting each goroutine separately from
   its own copy of [s0]; its observables are then the function [run_from s0 prog] of the shared
   prefix and its own program only ([private_determinism]).

   WHAT IS NOT MODELLED.  The Go memory model and machine-level accesses: the theorem is about
   which abstract fields of which tensors a call may write, not about data races on words (that
   part of C20 is checked by running the real library under the race detector).  The global
   random source is one atomic cell shared by all goroutines; here every goroutine carries its
   own [st_rng], so the VALUES drawn by concurrent random constructors are not related across
   goroutines (only their shapes / outcomes are).  Interleavings are not enumerated: by the
   frame theorem they cannot be observed through the shared prefix. *)
From Coq Require Import List Arith ZArith Bool.
From Qeep Require Import Model.Scalar Model.Nd Model.Fill Model.Data Model.Valid Model.Api
     Model.Grad Model.Backprop Model.Components Model.Scenario.
Import ListNotations.
Set Implicit Arguments.

Section Conc.
Context {A : Type} {SA : Scalar A}.
Notation T := (tensor A).

Variable rd : bred.
Variable sealv : nat -> T -> T.
Variable sealg : nat -> option nat -> T -> T.
Variables (c_eps c_one_m_eps : A) (c_leaky c_sgd_lr dFull dUniL dUniU dNorM dNorS : dec) (c_softmax_dim : Z).
Notation step := (step rd sealv sealg c_eps c_one_m_eps c_leaky c_sgd_lr dFull dUniL dUniU dNorM dNorS c_softmax_dim).
Notation run_from := (run_from rd sealv sealg c_eps c_one_m_eps c_leaky c_sgd_lr dFull dUniL dUniU dNorM dNorS c_softmax_dim).

(* the environment entry an optimizer cell reference designates *)
Definition cellTarget (c : cellRef) : option nat :=
  match c with CrFCW fc => Some fc | CrFCB fc => Some fc | CrCell cl => Some cl | CrNilPtr => None end.

(* the proviso, as a boolean function of the current state and the next command *)
Definition safeb (n0 e0 : nat) (s : @state A) (c : @cmd A) : bool :=
  match c with
  | CBackprop (Some t) =>
      match lookupT s t with
      | Some x => forallb (fun i => n0 <=? i) (topoOrder (st_heap s) x)
      | None => true
      end
  | CReset t _ => match lookupT s t with Some x => n0 <=? x | None => true end
  | CFCSet fc _ _ => e0 <=? fc
  | CSGDUpdate _ cell => match cellTarget cell with Some k => e0 <=? k | None => true end
  | CAccumulate acc _ _ => e0 <=? acc
  | _ => true
  end.

Definition safe (n0 e0 : nat) (s : @state A) (c : @cmd A) : Prop := safeb n0 e0 s c = true.

(* the state of a goroutine after it has executed [cs] *)
Fixpoint g_exec (s : @state A) (cs : list (@cmd A)) : @state A :=
  match cs with [] => s | c :: r => g_exec (fst (step s c)) r end.

(* every command of the program is safe in the state in which it is executed *)
Fixpoint run_safe (n0 e0 : nat) (s : @state A) (cs : list (@cmd A)) : Prop :=
  match cs with
  | [] => True
  | c :: r => safe n0 e0 s c /\ run_safe n0 e0 (fst (step s c)) r
  end.

Fixpoint run_safeb (n0 e0 : nat) (s : @state A) (cs : list (@cmd A)) : bool :=
  match cs with
  | [] => true
  | c :: r => safeb n0 e0 s c && run_safeb n0 e0 (fst (step s c)) r
  end.

(* the shared part of a goroutine's state *)
Definition shared_heap (n0 : nat) (s : @state A) : list (@node A) := firstn n0 (st_heap s).
Definition shared_env (e0 : nat) (s : @state A) : list (@obj A) := firstn e0 (st_env s).

(* a system: the common start state and the programs of the goroutines; what goroutine j observes *)
Record system := mkSystem { sys_start : @state A; sys_progs : list (list (@cmd A)) }.
Definition sys_n0 (y : system) : nat := length (st_heap (sys_start y)).
Definition sys_e0 (y : system) : nat := length (st_env (sys_start y)).
Definition sys_safe (y : system) : Prop :=
  Forall (fun p => run_safe (sys_n0 y) (sys_e0 y) (sys_start y) p) (sys_progs y).
Definition sys_obs (y : system) (j : nat) : list (@obs A) := run_from (sys_start y) (nth j (sys_progs y) []).

(* forward-only commands: no call that reads or writes gradient contexts' gradients *)
Definition forward_only (c : @cmd A) : bool :=
  match c with
  | CBackprop _ | CReset _ _ | CGradOf _ | CSGDUpdate _ _ => false
  | _ => true
  end.

End Conc.
