(* DataIR.v — the imperative language of Model/GoIR.v extended to the DATA layer of
   tensor/internal/cputensor: values of Go's [any] holding a float64 or a []any, type assertions, float arithmetic,
   scalar function parameters (suf, sbf, af), LOCAL RECURSIVE CLOSURES with pointer parameters
   ([var copyData func(...); copyData = func(index, src, dst *any) {...}]) and calls to other functions through an
   oracle ([ext]: stateful, e.g. the element generator [initFunc()]).  harness/gox translates accessors.go,
   operators.go, reducers.go and initializers.go into [dprog] values (Model/GoData.v, regenerated on every run);
   Proofs/Data*P.v prove that running them is the hand-written model (Model/Data.v, Model/Fill.v).

   Semantics of the features beyond GoIR:
   * [TDef] is Go's [x := e] / [var x T] / a range variable: a NEW variable of the current frame (it shadows a captured
     variable of the same name); [TSet] is [x = e] / [*p = e]: the innermost existing variable.
   * a frame has two environments: [g] — the variables of the enclosing function (what a closure captures, shared
     by all its recursive invocations, e.g. [value] in reduceByAssociativeFunc) — and [l] — the parameters and
     locals of the current closure invocation.  The top-level function itself runs with [atMain = true]: all its
     variables live in [g].
   * pointer parameters are COPY-IN / COPY-OUT: [f(&x[i], &y)] reads the current contents of the slots, the callee
     works on local copies ([*p] is the variable p, [*p = e] assigns it), and on return the final values are
     written back, left to right.  This is Go's reference semantics whenever the callee cannot reach the pointed-to
     slot in any other way; the translator refuses calls where the same root variable is passed by reference twice
     or is also visible to the callee (captured).
   * [TExt]: a call to a function outside the program (sibling function of the package, or the stateful element
     generator); its meaning is the oracle [ext], threaded through a state of type S.
   [None] / [OPanic] = the Go code would panic (failed type assertion, index out of range, nil dereference).
   Definitions only. *)
From Coq Require Import String List ZArith Bool.
From Qeep Require Import Model.Scalar Model.Nd.
From Qeep Require Model.GoIR.
Import ListNotations.
Local Open Scope Z_scope.

Section DataIR.
Context {A : Type} {SA : Scalar A}.

Inductive dval := DI (z : Z) | DB (b : bool) | DF (a : A) | DR (f t : Z) | DL (l : list dval) | DNil.

Inductive fop := FAdd | FSub | FMul | FDiv.

Inductive dexpr :=
| XInt (z : Z) | XVar (x : string) | XNilSlice | XNilAny
| XBool (b : bool)
| XMkRange (f t : dexpr)                        (* tensor.Range{From: f, To: t} *)
| XMakeRanges (n : dexpr)                       (* make([]tensor.Range, n) *)
| XMember (a x : dexpr)                         (* m[x] for a map[K]bool used as a set, held as the list of its keys *)
| XIsNil (a : dexpr)                            (* a == nil for an interface / pointer value *)
| XLen (a : dexpr) | XIdx (a i : dexpr) | XFrom (a : dexpr) | XTo (a : dexpr)
| XBin (o : GoIR.binop) (a b : dexpr) | XNot (a : dexpr) | XAnd (a b : dexpr) | XOr (a b : dexpr)
| XSub (a : dexpr) (lo hi : option dexpr)
| XMakeInts (n : dexpr)                         (* make([]int, n) *)
| XMakeAny (n : dexpr)                          (* make([]any, n): n nil slots *)
| XMakeAnyCap (n : dexpr)                       (* make([]any, 0, n): empty *)
| XAppend (a : dexpr) (xs : list dexpr) | XAppendAll (a b : dexpr)
| XAssertF (a : dexpr)                          (* a.(float64) *)
| XAssertL (a : dexpr)                          (* a.([]any) *)
| XFLit (m e : Z)                               (* float literal m * 10^e *)
| XFBin (o : fop) (a b : dexpr)
| XFApp (f : string) (args : list dexpr).       (* application of a scalar function parameter *)

Inductive darg := AVal (e : dexpr) | ARefVar (x : string) | ARefIdx (x : string) (i : dexpr).

Inductive dstmt :=
| TSkip
| TDef (x : string) (e : dexpr)                 (* x := e, var x T: a NEW variable of the current frame *)
| TSet (x : string) (e : dexpr)                 (* x = e, *p = e: an existing variable (local, else captured) *)
| TSetIdx (x : string) (i e : dexpr)
| TCopy (x : string) (e : dexpr)
| TSeq (a b : dstmt)
| TIf (c : dexpr) (a b : dstmt)
| TFor (c : dexpr) (post body : dstmt)
| TRange (i x : string) (a : dexpr) (body : dstmt)
| TBreak | TContinue
| TRet (es : list dexpr)
| TCall (f : string) (args : list darg)         (* local closure (no results; results come back through pointers) *)
| TExt (def : bool) (xs : list string) (f : string) (args : list dexpr)   (* def: xs := f(..) / xs = f(..) *)
| TUnsupported (text : string).

Fixpoint tseq (l : list dstmt) : dstmt :=
  match l with [] => TSkip | [s] => s | s :: r => TSeq s (tseq r) end.

(* parameters: name and whether it is a pointer (copied out on return) *)
Record dfn := mkD { dparams : list (string * bool); dbody : dstmt }.
Record dprog := mkProg { pmain : dfn; plocals : list (string * dfn) }.

Definition denv := list (string * dval).

Fixpoint dlookup (e : denv) (x : string) : option dval :=
  match e with [] => None | (y, v) :: r => if String.eqb x y then Some v else dlookup r x end.
Fixpoint dupd (e : denv) (x : string) (v : dval) : denv :=
  match e with
  | [] => [(x, v)]
  | (y, w) :: r => if String.eqb x y then (y, v) :: r else (y, w) :: dupd r x v
  end.
Definition dhas (e : denv) (x : string) : bool := match dlookup e x with Some _ => true | None => false end.

(* variable lookup: locals first, then the captured variables *)
Definition vlookup (g l : denv) (x : string) : option dval :=
  match dlookup l x with Some v => Some v | None => dlookup g x end.

(* assignment: an existing local, else an existing captured variable, else a new variable of the current frame *)
Definition vassign (atMain : bool) (g l : denv) (x : string) (v : dval) : denv * denv :=
  if dhas l x then (g, dupd l x v)
  else if dhas g x then (dupd g x v, l)
  else if atMain then (dupd g x v, l) else (g, dupd l x v).

(* definition of a new variable: always in the current frame *)
Definition vdefine (atMain : bool) (g l : denv) (x : string) (v : dval) : denv * denv :=
  if atMain then (dupd g x v, l) else (g, dupd l x v).

Fixpoint setNthD (l : list dval) (i : nat) (v : dval) : option (list dval) :=
  match l, i with
  | [], _ => None
  | _ :: r, O => Some (v :: r)
  | x :: r, S i' => match setNthD r i' v with Some r' => Some (x :: r') | None => None end
  end.

Definition didx (z : Z) : option nat := if 0 <=? z then Some (Z.to_nat z) else None.
Definition dlen (l : list dval) : Z := Z.of_nat (length l).

Definition devalBin (o : GoIR.binop) (a b : dval) : option dval :=
  match a, b with
  | DI x, DI y =>
      match o with
      | GoIR.OAdd => Some (DI (x + y)) | GoIR.OSub => Some (DI (x - y)) | GoIR.OMul => Some (DI (x * y))
      | GoIR.ORem => if y =? 0 then None else Some (DI (Z.rem x y))
      | GoIR.OEq => Some (DB (x =? y)) | GoIR.ONe => Some (DB (negb (x =? y)))
      | GoIR.OLt => Some (DB (x <? y)) | GoIR.OLe => Some (DB (x <=? y))
      | GoIR.OGt => Some (DB (x >? y)) | GoIR.OGe => Some (DB (x >=? y))
      end
  | _, _ => None
  end.

Definition fopF (o : fop) : A -> A -> A :=
  match o with FAdd => sadd | FSub => ssub | FMul => smul | FDiv => sdiv end.

Fixpoint dcopyInto (dst src : list dval) : list dval :=
  match dst, src with
  | _ :: d', s :: s' => s :: dcopyInto d' s'
  | _, _ => dst
  end.

(* scalar function parameters (suf, sbf, af, ...) *)
Variable fapp : string -> list A -> option A.

Fixpoint asFloats (vs : list dval) : option (list A) :=
  match vs with
  | [] => Some []
  | DF a :: r => match asFloats r with Some l => Some (a :: l) | None => None end
  | _ => None
  end.

Fixpoint deval (g l : denv) (x : dexpr) {struct x} : option dval :=
  match x with
  | XInt z => Some (DI z)
  | XVar v => vlookup g l v
  | XNilSlice => Some (DL [])
  | XNilAny => Some DNil
  | XBool b => Some (DB b)
  | XMkRange f t =>
      match deval g l f, deval g l t with
      | Some (DI a), Some (DI b) => Some (DR a b)
      | _, _ => None
      end
  | XMakeRanges n =>
      match deval g l n with
      | Some (DI z) => if 0 <=? z then Some (DL (repeat (DR 0 0) (Z.to_nat z))) else None
      | _ => None
      end
  | XMember a y =>
      match deval g l a, deval g l y with
      | Some (DL m), Some (DI z) =>
          Some (DB (existsb (fun v => match v with DI w => w =? z | _ => false end) m))
      | _, _ => None
      end
  | XIsNil a => match deval g l a with Some DNil => Some (DB true) | Some _ => Some (DB false) | None => None end
  | XLen a => match deval g l a with Some (DL m) => Some (DI (dlen m)) | _ => None end
  | XIdx a i =>
      match deval g l a, deval g l i with
      | Some (DL m), Some (DI z) => match didx z with Some n => nth_error m n | None => None end
      | _, _ => None
      end
  | XFrom a => match deval g l a with Some (DR f _) => Some (DI f) | _ => None end
  | XTo a => match deval g l a with Some (DR _ t) => Some (DI t) | _ => None end
  | XBin o a b =>
      match deval g l a, deval g l b with
      | Some va, Some vb => devalBin o va vb
      | _, _ => None
      end
  | XNot a => match deval g l a with Some (DB b) => Some (DB (negb b)) | _ => None end
  | XAnd a b =>
      match deval g l a with
      | Some (DB true) => match deval g l b with Some (DB v) => Some (DB v) | _ => None end
      | Some (DB false) => Some (DB false)
      | _ => None
      end
  | XOr a b =>
      match deval g l a with
      | Some (DB false) => match deval g l b with Some (DB v) => Some (DB v) | _ => None end
      | Some (DB true) => Some (DB true)
      | _ => None
      end
  | XSub a lo hi =>
      match deval g l a with
      | Some (DL m) =>
          let olo := match lo with None => Some (DI 0) | Some y => deval g l y end in
          let ohi := match hi with None => Some (DI (dlen m)) | Some y => deval g l y end in
          match olo, ohi with
          | Some (DI zl), Some (DI zh) =>
              if (0 <=? zl) && (zl <=? zh) && (zh <=? dlen m)
              then Some (DL (firstn (Z.to_nat (zh - zl)) (skipn (Z.to_nat zl) m)))
              else None
          | _, _ => None
          end
      | _ => None
      end
  | XMakeInts n =>
      match deval g l n with
      | Some (DI z) => if 0 <=? z then Some (DL (repeat (DI 0) (Z.to_nat z))) else None
      | _ => None
      end
  | XMakeAny n =>
      match deval g l n with
      | Some (DI z) => if 0 <=? z then Some (DL (repeat DNil (Z.to_nat z))) else None
      | _ => None
      end
  | XMakeAnyCap n =>
      match deval g l n with
      | Some (DI z) => if 0 <=? z then Some (DL []) else None
      | _ => None
      end
  | XAppend a xs =>
      match deval g l a with
      | Some (DL m) =>
          match (fix evs (xs : list dexpr) : option (list dval) :=
                   match xs with
                   | [] => Some []
                   | y :: r => match deval g l y, evs r with
                               | Some v, Some vs => Some (v :: vs)
                               | _, _ => None
                               end
                   end) xs with
          | Some vs => Some (DL (m ++ vs))
          | None => None
          end
      | _ => None
      end
  | XAppendAll a b =>
      match deval g l a, deval g l b with
      | Some (DL m), Some (DL n) => Some (DL (m ++ n))
      | _, _ => None
      end
  | XAssertF a => match deval g l a with Some (DF f) => Some (DF f) | _ => None end
  | XAssertL a => match deval g l a with Some (DL m) => Some (DL m) | _ => None end
  | XFLit m e => Some (DF (sconst m e))
  | XFBin o a b =>
      match deval g l a, deval g l b with
      | Some (DF x), Some (DF y) => Some (DF (fopF o x y))
      | _, _ => None
      end
  | XFApp f args =>
      match (fix evs (xs : list dexpr) : option (list dval) :=
               match xs with
               | [] => Some []
               | y :: r => match deval g l y, evs r with
                           | Some v, Some vs => Some (v :: vs)
                           | _, _ => None
                           end
               end) args with
      | Some vs => match asFloats vs with
                   | Some fs => match fapp f fs with Some r => Some (DF r) | None => None end
                   | None => None
                   end
      | None => None
      end
  end.

Fixpoint devals (g l : denv) (xs : list dexpr) : option (list dval) :=
  match xs with
  | [] => Some []
  | y :: r => match deval g l y, devals g l r with
              | Some v, Some vs => Some (v :: vs)
              | _, _ => None
              end
  end.

Variable St : Type.
Variable ext : string -> list dval -> St -> option (list dval * St).

Inductive doutcome :=
| DNormal (s : St) (g l : denv) | DBreak (s : St) (g l : denv) | DContinue (s : St) (g l : denv)
| DRet (vs : list dval) (s : St) (g l : denv) | DPanic | DFuel.

(* result of a closure call: final values of the pointer parameters (in order), state, captured variables *)
Inductive cres := CRet (outs : list dval) (s : St) (g : denv) | CPanic | CFuel.

(* x[i] = v in whichever environment holds x *)
Definition setSlot (atMain : bool) (g l : denv) (x : string) (n : nat) (v : dval) : option (denv * denv) :=
  match vlookup g l x with
  | Some (DL m) => match setNthD m n v with
                   | Some m' => Some (vassign atMain g l x (DL m'))
                   | None => None
                   end
  | _ => None
  end.

(* the current contents of the argument slots *)
Fixpoint argVals (g l : denv) (args : list darg) : option (list dval) :=
  match args with
  | [] => Some []
  | a :: r =>
      let ov := match a with
                | AVal e => deval g l e
                | ARefVar x => vlookup g l x
                | ARefIdx x i =>
                    match vlookup g l x, deval g l i with
                    | Some (DL m), Some (DI z) => match didx z with Some n => nth_error m n | None => None end
                    | _, _ => None
                    end
                end in
      match ov, argVals g l r with
      | Some v, Some vs => Some (v :: vs)
      | _, _ => None
      end
  end.

(* copy-out: the reference arguments, left to right, receive [outs] *)
Fixpoint copyOut (atMain : bool) (g l : denv) (args : list darg) (outs : list dval) : option (denv * denv) :=
  match args with
  | [] => match outs with [] => Some (g, l) | _ => None end
  | AVal _ :: r => copyOut atMain g l r outs
  | ARefVar x :: r =>
      match outs with
      | v :: outs' => let '(g1, l1) := vassign atMain g l x v in copyOut atMain g1 l1 r outs'
      | [] => None
      end
  | ARefIdx x i :: r =>
      match outs with
      | v :: outs' =>
          match deval g l i with
          | Some (DI z) =>
              match didx z with
              | Some n => match setSlot atMain g l x n v with
                          | Some (g1, l1) => copyOut atMain g1 l1 r outs'
                          | None => None
                          end
              | None => None
              end
          | _ => None
          end
      | [] => None
      end
  end.

Fixpoint dassignAll (def atMain : bool) (g l : denv) (xs : list string) (vs : list dval) : option (denv * denv) :=
  match xs, vs with
  | [], [] => Some (g, l)
  | x :: xs', v :: vs' =>
      let '(g1, l1) := if def then vdefine atMain g l x v else vassign atMain g l x v in
      dassignAll def atMain g1 l1 xs' vs'
  | _, _ => None
  end.

Fixpoint drangeLoop (body : St -> denv -> denv -> doutcome) (assign : denv -> denv -> Z -> dval -> denv * denv)
         (m : list dval) (k : Z) (s : St) (g l : denv) : doutcome :=
  match m with
  | [] => DNormal s g l
  | v :: m' =>
      let '(g0, l0) := assign g l k v in
      match body s g0 l0 with
      | DNormal s1 g1 l1 | DContinue s1 g1 l1 => drangeLoop body assign m' (k + 1) s1 g1 l1
      | DBreak s1 g1 l1 => DNormal s1 g1 l1
      | o => o
      end
  end.

Fixpoint dforLoop (fuel : nat) (cond : denv -> denv -> option dval) (body post : St -> denv -> denv -> doutcome)
         (s : St) (g l : denv) : doutcome :=
  match fuel with
  | O => DFuel
  | S fuel' =>
      match cond g l with
      | Some (DB true) =>
          match body s g l with
          | DNormal s1 g1 l1 | DContinue s1 g1 l1 =>
              match post s1 g1 l1 with
              | DNormal s2 g2 l2 => dforLoop fuel' cond body post s2 g2 l2
              | DFuel => DFuel
              | _ => DPanic
              end
          | DBreak s1 g1 l1 => DNormal s1 g1 l1
          | o => o
          end
      | Some (DB false) => DNormal s g l
      | _ => DPanic
      end
  end.

Section Exec.
Variable callL : string -> list dval -> St -> denv -> cres.
Variable fuel : nat.
Variable atMain : bool.

Fixpoint dexec (t : dstmt) (s : St) (g l : denv) {struct t} : doutcome :=
  match t with
  | TSkip => DNormal s g l
  | TDef x e =>
      match deval g l e with
      | Some v => let '(g1, l1) := vdefine atMain g l x v in DNormal s g1 l1
      | None => DPanic
      end
  | TSet x e =>
      match deval g l e with
      | Some v => let '(g1, l1) := vassign atMain g l x v in DNormal s g1 l1
      | None => DPanic
      end
  | TSetIdx x i e =>
      match deval g l e, deval g l i with
      | Some v, Some (DI z) =>
          match didx z with
          | Some n => match setSlot atMain g l x n v with
                      | Some (g1, l1) => DNormal s g1 l1
                      | None => DPanic
                      end
          | None => DPanic
          end
      | _, _ => DPanic
      end
  | TCopy x e =>
      match vlookup g l x, deval g l e with
      | Some (DL d), Some (DL src) => let '(g1, l1) := vassign atMain g l x (DL (dcopyInto d src)) in DNormal s g1 l1
      | _, _ => DPanic
      end
  | TSeq a b => match dexec a s g l with DNormal s1 g1 l1 => dexec b s1 g1 l1 | o => o end
  | TIf c a b =>
      match deval g l c with
      | Some (DB true) => dexec a s g l
      | Some (DB false) => dexec b s g l
      | _ => DPanic
      end
  | TFor c post body => dforLoop fuel (fun g' l' => deval g' l' c) (dexec body) (dexec post) s g l
  | TRange i x a body =>
      match deval g l a with
      | Some (DL m) =>
          drangeLoop (dexec body)
                     (fun g' l' k v => let '(g1, l1) := vdefine atMain g' l' i (DI k) in vdefine atMain g1 l1 x v)
                     m 0 s g l
      | _ => DPanic
      end
  | TBreak => DBreak s g l
  | TContinue => DContinue s g l
  | TRet es => match devals g l es with Some vs => DRet vs s g l | None => DPanic end
  | TCall f args =>
      match argVals g l args with
      | Some vs =>
          (* the callee sees the captured variables: at main level these are main's own variables *)
          match callL f vs s g with
          | CRet outs s1 g1 =>
              match copyOut atMain g1 l args outs with
              | Some (g2, l2) => DNormal s1 g2 l2
              | None => DPanic
              end
          | CPanic => DPanic
          | CFuel => DFuel
          end
      | None => DPanic
      end
  | TExt def xs f args =>
      match devals g l args with
      | Some vs =>
          match ext f vs s with
          | Some (rs, s1) =>
              match dassignAll def atMain g l xs rs with
              | Some (g1, l1) => DNormal s1 g1 l1
              | None => DPanic
              end
          | None => DPanic
          end
      | None => DPanic
      end
  | TUnsupported _ => DPanic
  end.
End Exec.

Fixpoint dbind (ps : list (string * bool)) (vs : list dval) : option denv :=
  match ps, vs with
  | [], [] => Some []
  | (p, _) :: ps', v :: vs' => match dbind ps' vs' with Some e => Some ((p, v) :: e) | None => None end
  | _, _ => None
  end.

(* final values of the pointer parameters *)
Fixpoint ptrOuts (ps : list (string * bool)) (l : denv) : option (list dval) :=
  match ps with
  | [] => Some []
  | (p, true) :: r => match dlookup l p, ptrOuts r l with Some v, Some vs => Some (v :: vs) | _, _ => None end
  | (_, false) :: r => ptrOuts r l
  end.

Fixpoint dlookupFn (t : list (string * dfn)) (f : string) : option dfn :=
  match t with [] => None | (h, d) :: r => if String.eqb f h then Some d else dlookupFn r f end.

(* calls of local closures, nesting bounded by [depth] *)
Fixpoint callLD (locals : list (string * dfn)) (fuel depth : nat) (f : string) (vs : list dval) (s : St) (g : denv) : cres :=
  match depth with
  | O => CFuel
  | S d =>
      match dlookupFn locals f with
      | Some fd =>
          match dbind (dparams fd) vs with
          | Some l0 =>
              match dexec (callLD locals fuel d) fuel false (dbody fd) s g l0 with
              | DNormal s1 g1 l1 | DRet _ s1 g1 l1 =>
                  match ptrOuts (dparams fd) l1 with Some outs => CRet outs s1 g1 | None => CPanic end
              | DFuel => CFuel
              | _ => CPanic
              end
          | None => CPanic
          end
      | None => CPanic
      end
  end.

(* run the top-level function: its variables are the captured environment of its closures *)
Definition drun (p : dprog) (fuel depth : nat) (args : list dval) (s : St) : doutcome :=
  match dbind (dparams (pmain p)) args with
  | Some g0 => dexec (callLD (plocals p) fuel depth) fuel true (dbody (pmain p)) s g0 []
  | None => DPanic
  end.

(* embedding of the model's nested data *)
Fixpoint emb (x : nd A) : dval :=
  match x with
  | Sc a => DF a
  | Vec l => DL ((fix go (l : list (nd A)) : list dval := match l with [] => [] | y :: r => emb y :: go r end) l)
  end.
Definition dnats (l : list nat) : dval := DL (map (fun n => DI (Z.of_nat n)) l).
Definition dranges (l : list (nat * nat)) : dval := DL (map (fun r => DR (Z.of_nat (fst r)) (Z.of_nat (snd r))) l).

End DataIR.
