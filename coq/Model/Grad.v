(* Grad.v — tensor/internal/gradtrack: gradient contexts, the back-edge closures of
   gradients.go as first-order rules, and the tracked public methods of cputensor.go on a heap
   of tensors.  A node is a CPUTensor (immutable value) together with its *current* gradient
   context (ResetGradContext replaces it in place; back edges point at tensors, and
   gradContextOf(edge.target) reads the target's current context).
   Result ids are larger than operand ids.  Definitions only. *)
From Coq Require Import List Arith ZArith Bool.
From Qeep Require Import Model.Scalar Model.Nd Model.Fill Model.Data Model.Valid Model.Api.
Import ListNotations.
Set Implicit Arguments.

(* the reduction used by the Broadcast back edge: the property demands the sum over the copies,
   the pinned source takes the average (known finding D2) *)
Inductive bred := RedSum | RedAvg.

Section Grad.
Context {A : Type} {SA : Scalar A}.
Notation T := (tensor A).

Inductive rule :=
| RConcat (y : nat) (index : list zrange)          (* y.Gradient().Slice(index) *)
| RSliceX (y x : nat) (index : list zrange)        (* toZeros(x).Patch(index, y.Gradient()) *)
| RPatchX (y p : nat) (index : list zrange)        (* y.Gradient().Patch(index, toZeros(p)) *)
| RPatchP (y p : nat) (index : list zrange)        (* y.Gradient().Slice(patchedRegion(index, p.Shape())) *)
| RTranspose (y : nat)                             (* y.Gradient().Transpose() *)
| RReshape (y x : nat)                             (* y.Gradient().Reshape(x.Shape()) *)
| RBroadcast (y x : nat)
| RSumAlong (y x : nat) (dim : Z)
| RExtAlong (y x : nat) (dim : Z)                  (* MaxAlong and MinAlong share the code *)
| RAvgAlong (y x : nat) (dim : Z)                  (* AvgAlong and MeanAlong *)
| RVarAlong (y x : nat) (dim : Z)
| RStdAlong (y x : nat) (dim : Z)
| RScale (y : nat) (a : A)
| RPow (y x : nat) (a : A) (azero : bool)
| RExp (y : nat)
| RLog (y x : nat)
| RSin (y x : nat) | RCos (y x : nat) | RTan (y x : nat)
| RSinh (y x : nat) | RCosh (y x : nat) | RTanh (y x : nat)
| RElSel (y a b : nat)                             (* ElMax and ElMin share the code *)
| RId (y : nat)                                    (* Add both, Sub first operand *)
| RNeg (y : nat)                                   (* Sub second operand *)
| RMul (y o : nat)
| RDivA (y b : nat)
| RDivB (y a b : nat)
| RDot (y o : nat)
| RMatMulA (y b : nat)
| RMatMulB (y a : nat).

Record node := mkNode {
  nval : T;
  ntracked : bool;
  ndirty : bool;
  ngrad : option T;
  nedges : list (nat * rule);
  nname : option nat          (* scenario-level name of an API-visible tensor; None = internal *)
}.

Definition heap := list node.

Definition valOf (h : heap) (i : nat) : option T := do n <- nth_error h i; Some (nval n).
Definition gradOf (h : heap) (i : nat) : option T := do n <- nth_error h i; ngrad n.
Definition trackedOf (h : heap) (i : nat) : bool :=
  match nth_error h i with Some n => ntracked n | None => false end.
Definition dirtyOf (h : heap) (i : nat) : bool :=
  match nth_error h i with Some n => ndirty n | None => false end.
Definition edgesOf (h : heap) (i : nat) : list (nat * rule) :=
  match nth_error h i with Some n => nedges n | None => [] end.

(* ---- gradient_helpers.go ---- *)
Definition toZeros (t : T) : res T := v_unary (UScale (sconst 0 0)) t.
Definition toOnes (t : T) : res T := v_unary (UPow (sconst 0 0)) t.
Definition reducerBroadcasted (y x : T) (dim : Z) : res T :=
  dor o <- v_unsqueeze y dim; v_broadcast o (zdims x).

(* fix F3: the explicit ranges a source of the given shape occupies when patched at index *)
Fixpoint patchedRegion (index : list zrange) (src : list Z) : list zrange :=
  match src with
  | [] => []
  | s :: src' =>
      match index with
      | [] => (0%Z, s) :: patchedRegion [] src'
      | (f, t) :: index' =>
          (if (f =? 0)%Z && (t =? 0)%Z then (0%Z, s) else (f, t)) :: patchedRegion index' src'
      end
  end.

(* the Broadcast back edge *)
Definition redAlong (rd : bred) (g : T) (dim : Z) : res T :=
  v_reduceAlong (match rd with RedSum => RdSum | RedAvg => RdAvg end) g dim.
Fixpoint bcLead (rd : bred) (n : nat) (gy : T) : res T :=
  match n with O => Ok gy | S n' => dor g <- redAlong rd gy 0%Z; bcLead rd n' g end.
Fixpoint bcDims (rd : bred) (j : nat) (src dst : list nat) (gy : T) : res T :=
  match src, dst with
  | s :: src', d :: dst' =>
      dor g <- (if s =? d then Ok gy
                else dor g1 <- redAlong rd gy (Z.of_nat j); v_unsqueeze g1 (Z.of_nat j));
      bcDims rd (S j) src' dst' g
  | _, _ => Ok gy
  end.
Definition bcastBack (rd : bred) (gy : T) (src dst : list nat) : res T :=
  let lead := length dst - length src in
  dor g <- bcLead rd lead gy; bcDims rd 0 src (skipn lead dst) g.

Definition cst (m e : Z) : A := sconst m e.

Section Eval.
Variable rd : bred.
Variable h : heap.

Definition gy_of (y : nat) : res T := of_opt (gradOf h y).
Definition val_of (x : nat) : res T := of_opt (valOf h x).
Definition dimAt (t : T) (dim : Z) : nat := nth (Z.to_nat dim) (dims t) 0.

Definition eval_rule (r : rule) : res T :=
  match r with
  | RConcat y index => dor gy <- gy_of y; v_slice gy index
  | RSliceX y x index => dor gy <- gy_of y; dor xv <- val_of x; dor z <- toZeros xv; v_patch z index gy
  | RPatchX y p index => dor gy <- gy_of y; dor pv <- val_of p; dor z <- toZeros pv; v_patch gy index z
  | RPatchP y p index => dor gy <- gy_of y; dor pv <- val_of p; v_slice gy (patchedRegion index (zdims pv))
  | RTranspose y => dor gy <- gy_of y; v_transpose gy
  | RReshape y x => dor gy <- gy_of y; dor xv <- val_of x; v_reshape gy (zdims xv)
  | RBroadcast y x => dor gy <- gy_of y; dor xv <- val_of x; dor yv <- val_of y; bcastBack rd gy (dims xv) (dims yv)
  | RSumAlong y x dim => dor gy <- gy_of y; dor xv <- val_of x; reducerBroadcasted gy xv dim
  | RExtAlong y x dim =>
      dor gy <- gy_of y; dor xv <- val_of x; dor yv <- val_of y;
      dor gyb <- reducerBroadcasted gy xv dim;
      dor yb <- reducerBroadcasted yv xv dim;
      dor gx <- v_same BiEq xv yb;
      v_arith BiMul gyb gx
  | RAvgAlong y x dim =>
      dor gy <- gy_of y; dor xv <- val_of x;
      dor gyb <- reducerBroadcasted gy xv dim;
      v_unary (UScale (sdiv (cst 1 0) (sofnat (dimAt xv dim)))) gyb
  | RVarAlong y x dim =>
      dor gy <- gy_of y; dor xv <- val_of x;
      dor gyb <- reducerBroadcasted gy xv dim;
      let n := dimAt xv dim in
      if n =? 1 then toZeros xv else
      dor u <- v_reduceAlong RdMean xv dim;
      dor u <- v_unsqueeze u dim;
      dor gx <- v_arith BiSub xv u;
      dor gx <- v_unary (UScale (sdiv (cst 2 0) (sofnat (n - 1)))) gx;
      v_arith BiMul gyb gx
  | RStdAlong y x dim =>
      dor gy <- gy_of y; dor xv <- val_of x; dor yv <- val_of y;
      dor gyb <- reducerBroadcasted gy xv dim;
      let n := dimAt xv dim in
      if n =? 1 then toZeros xv else
      dor u <- v_reduceAlong RdMean xv dim;
      dor u <- v_unsqueeze u dim;
      dor gx <- v_arith BiSub xv u;
      dor yu <- v_unsqueeze yv dim;
      dor gx <- v_arith BiDiv gx yu;
      dor gx <- v_unary (UScale (sdiv (cst 1 0) (sofnat (n - 1)))) gx;
      v_arith BiMul gyb gx
  | RScale y a => dor gy <- gy_of y; v_unary (UScale a) gy
  | RPow y x a azero =>
      dor gy <- gy_of y; dor xv <- val_of x;
      if azero then toZeros gy else
      dor gx <- v_unary (UPow (ssub a (cst 1 0))) xv;
      dor gx <- v_unary (UScale a) gx;
      v_arith BiMul gy gx
  | RExp y => dor gy <- gy_of y; dor yv <- val_of y; v_arith BiMul gy yv
  | RLog y x => dor gy <- gy_of y; dor xv <- val_of x; v_arith BiDiv gy xv
  | RSin y x => dor gy <- gy_of y; dor xv <- val_of x; dor gx <- v_unary UCosine xv; v_arith BiMul gy gx
  | RCos y x => dor gy <- gy_of y; dor xv <- val_of x; dor gx <- v_unary USine xv;
                dor gx <- v_unary (UScale (cst (-1) 0)) gx; v_arith BiMul gy gx
  | RTan y x => dor gy <- gy_of y; dor xv <- val_of x; dor gx <- v_unary UCosine xv;
                dor gx <- v_unary (UPow (cst (-2) 0)) gx; v_arith BiMul gy gx
  | RSinh y x => dor gy <- gy_of y; dor xv <- val_of x; dor gx <- v_unary UCosH xv; v_arith BiMul gy gx
  | RCosh y x => dor gy <- gy_of y; dor xv <- val_of x; dor gx <- v_unary USinH xv; v_arith BiMul gy gx
  | RTanh y x => dor gy <- gy_of y; dor xv <- val_of x; dor gx <- v_unary UCosH xv;
                 dor gx <- v_unary (UPow (cst (-2) 0)) gx; v_arith BiMul gy gx
  | RElSel y a b =>
      dor gy <- gy_of y; dor yv <- val_of y; dor av <- val_of a; dor bv <- val_of b;
      dor ga <- v_same BiEq yv av;
      dor eq <- v_same BiEq av bv;
      dor half <- v_unary (UScale (cst 5 (-1))) eq;
      dor ga <- v_arith BiSub ga half;
      v_arith BiMul gy ga
  | RId y => gy_of y
  | RNeg y => dor gy <- gy_of y; v_unary (UScale (cst (-1) 0)) gy
  | RMul y o => dor gy <- gy_of y; dor ov <- val_of o; v_arith BiMul gy ov
  | RDivA y b => dor gy <- gy_of y; dor bv <- val_of b; v_arith BiDiv gy bv
  | RDivB y a b =>
      dor gy <- gy_of y; dor av <- val_of a; dor bv <- val_of b;
      dor n <- v_unary (UScale (cst (-1) 0)) av;
      dor d <- v_unary (UPow (cst 2 0)) bv;
      dor gb <- v_arith BiDiv n d;
      v_arith BiMul gy gb
  | RDot y o =>
      dor gy <- gy_of y; dor yv <- val_of y; dor ov <- val_of o;
      dor gyu <- v_unsqueeze gy (zlen (dims yv));
      v_arith BiMul gyu ov
  | RMatMulA y b => dor gy <- gy_of y; dor bv <- val_of b; dor bt <- v_transpose bv; v_matmul gy bt
  | RMatMulB y a => dor gy <- gy_of y; dor av <- val_of a; dor at_ <- v_transpose av; v_matmul at_ gy
  end.
End Eval.

(* ---- gradient contexts of results (the three-way test at the top of every function in gradients.go) ---- *)

Definition mkCtx (h : heap) (operands : list nat) (edges : list (nat * rule)) : bool * bool * list (nat * rule) :=
  if existsb (dirtyOf h) operands then (false, true, [])
  else if negb (existsb (trackedOf h) operands) then (false, false, [])
  else (true, false, edges).

Definition alloc (h : heap) (v : T) (ctx : bool * bool * list (nat * rule)) (name : option nat) : heap * nat :=
  let '(tr, di, es) := ctx in
  (h ++ [mkNode v tr di None es name], length h).

Definition leaf (h : heap) (v : T) (tracked : bool) (name : option nat) : heap * nat :=
  alloc h v (tracked, false, []) name.

(* result of a public method on the heap: new heap and the id of the result *)
Definition hres := (heap * res nat)%type.

(* one-operand method: value function, back edge to x *)
Definition h_op1 (h : heap) (x : nat) (f : T -> res T) (mkrule : nat -> rule) (name : option nat) : hres :=
  match valOf h x with
  | None => (h, Panic)
  | Some xv =>
      match f xv with
      | Ok v => let y := length h in
                let '(h', id) := alloc h v (mkCtx h [x] [(x, mkrule y)]) name in (h', Ok id)
      | Err => (h, Err)
      | Panic => (h, Panic)
      end
  end.

Definition h_slice h x index := h_op1 h x (fun v => v_slice v index) (fun y => RSliceX y x index).
Definition h_transpose h x := h_op1 h x v_transpose (fun y => RTranspose y).
Definition h_reshape h x shape := h_op1 h x (fun v => v_reshape v shape) (fun y => RReshape y x).
Definition h_unsqueeze h x dim := h_op1 h x (fun v => v_unsqueeze v dim) (fun y => RReshape y x).
Definition h_squeeze h x dim := h_op1 h x (fun v => v_squeeze v dim) (fun y => RReshape y x).
Definition h_flatten h x dim := h_op1 h x (fun v => v_flatten v dim) (fun y => RReshape y x).
Definition h_broadcast h x shape := h_op1 h x (fun v => v_broadcast v shape) (fun y => RBroadcast y x).

Definition alongRule (r : reducer) (y x : nat) (dim : Z) : rule :=
  match r with
  | RdSum => RSumAlong y x dim
  | RdMax | RdMin => RExtAlong y x dim
  | RdAvg | RdMean => RAvgAlong y x dim
  | RdVar => RVarAlong y x dim
  | RdStd => RStdAlong y x dim
  end.
Definition h_reduceAlong h (r : reducer) x dim :=
  h_op1 h x (fun v => v_reduceAlong r v dim) (fun y => alongRule r y x dim).

(* Scale(a) / Pow(a): a as a scalar plus "a == 0" decided on the decimal literal *)
Definition h_scale h x (a : A) := h_op1 h x (v_unary (UScale a)) (fun y => RScale y a).
Definition h_pow h x (a : A) (azero : bool) := h_op1 h x (v_unary (UPow a)) (fun y => RPow y x a azero).

Inductive mathfn := FExp | FLog | FSin | FCos | FTan | FSinh | FCosh | FTanh.
Definition mathUnary (f : mathfn) : @unary A :=
  match f with FExp => UExpo | FLog => ULn | FSin => USine | FCos => UCosine | FTan => UTang
             | FSinh => USinH | FCosh => UCosH | FTanh => UTanH end.
Definition mathRule (f : mathfn) (y x : nat) : rule :=
  match f with FExp => RExp y | FLog => RLog y x | FSin => RSin y x | FCos => RCos y x | FTan => RTan y x
             | FSinh => RSinh y x | FCosh => RCosh y x | FTanh => RTanh y x end.
Definition h_math h (f : mathfn) x := h_op1 h x (v_unary (mathUnary f)) (fun y => mathRule f y x).

(* comparisons: gradtrack.NewGradContext(false), whatever the operands are *)
Definition h_cmp (h : heap) (b : binary) (x u : nat) (name : option nat) : hres :=
  match valOf h x, valOf h u with
  | Some xv, Some uv =>
      match v_same b xv uv with
      | Ok v => let '(h', id) := alloc h v (false, false, []) name in (h', Ok id)
      | Err => (h, Err) | Panic => (h, Panic)
      end
  | _, _ => (h, Panic)
  end.

(* ElMax / ElMin *)
Definition h_elsel (h : heap) (b : binary) (x u : nat) (name : option nat) : hres :=
  match valOf h x, valOf h u with
  | Some xv, Some uv =>
      match v_same b xv uv with
      | Ok v => let y := length h in
                let '(h', id) := alloc h v (mkCtx h [x; u] [(x, RElSel y x u); (u, RElSel y u x)]) name in (h', Ok id)
      | Err => (h, Err) | Panic => (h, Panic)
      end
  | _, _ => (h, Panic)
  end.

(* broadcastForBinaryOp / broadcastForMatMul on the heap: two public Broadcast calls *)
Definition h_bcast2 (h : heap) (x u : nat) (shape1 shape2 : list Z) : heap * res (nat * nat) :=
  match h_broadcast h x shape1 None with
  | (h1, Ok b1) =>
      match h_broadcast h1 u shape2 None with
      | (h2, Ok b2) => (h2, Ok (b1, b2))
      | (_, Err) => (h, Err)
      | (_, Panic) => (h, Panic)
      end
  | (_, Err) => (h, Err)
  | (_, Panic) => (h, Panic)
  end.

Definition arithEdges (b : binary) (y a1 a2 : nat) : list (nat * rule) :=
  match b with
  | BiAdd => [(a1, RId y); (a2, RId y)]
  | BiSub => [(a1, RId y); (a2, RNeg y)]
  | BiMul => [(a1, RMul y a2); (a2, RMul y a1)]
  | BiDiv => [(a1, RDivA y a2); (a2, RDivB y a1 a2)]
  | _ => []
  end.

Definition h_binop (h : heap) (x u : nat) (shape1 shape2 : list Z)
           (f : T -> T -> option T) (edges : nat -> nat -> nat -> list (nat * rule)) (name : option nat) : hres :=
  match h_bcast2 h x u shape1 shape2 with
  | (h2, Ok (b1, b2)) =>
      match valOf h2 b1, valOf h2 b2 with
      | Some v1, Some v2 =>
          match f v1 v2 with
          | Some v => let y := length h2 in
                      let '(h3, id) := alloc h2 v (mkCtx h2 [b1; b2] (edges y b1 b2)) name in (h3, Ok id)
          | None => (h, Panic)
          end
      | _, _ => (h, Panic)
      end
  | (_, Err) => (h, Err)
  | (_, Panic) => (h, Panic)
  end.

Definition h_arith (h : heap) (b : binary) (x u : nat) (name : option nat) : hres :=
  match valOf h x, valOf h u with
  | Some xv, Some uv =>
      let shape := map Z.of_nat (targetBroadcastDims (dims xv) (dims uv)) in
      h_binop h x u shape shape (apply2 (binaryF b)) (arithEdges b) name
  | _, _ => (h, Panic)
  end.

Definition h_dot (h : heap) (x u : nat) (name : option nat) : hres :=
  match valOf h x, valOf h u with
  | Some xv, Some uv =>
      if validateDotProductDims (zdims xv) (zdims uv) then
        let shape := map Z.of_nat (targetBroadcastDims (dims xv) (dims uv)) in
        h_binop h x u shape shape dot (fun y a1 a2 => [(a1, RDot y a2); (a2, RDot y a1)]) name
      else (h, Err)
  | _, _ => (h, Panic)
  end.

Definition h_matmul (h : heap) (x u : nat) (name : option nat) : hres :=
  match valOf h x, valOf h u with
  | Some xv, Some uv =>
      if validateMatMulDims (zdims xv) (zdims uv) then
        let shape := targetBroadcastDims (dims xv) (dims uv) in
        h_binop h x u (map Z.of_nat (mmShape shape (dims xv))) (map Z.of_nat (mmShape shape (dims uv)))
                matMul (fun y a1 a2 => [(a1, RMatMulA y a2); (a2, RMatMulB y a1)]) name
      else (h, Err)
  | _, _ => (h, Panic)
  end.

Definition h_patch (h : heap) (x : nat) (index : list zrange) (p : nat) (name : option nat) : hres :=
  match valOf h x, valOf h p with
  | Some xv, Some pv =>
      match v_patch xv index pv with
      | Ok v => let y := length h in
                let '(h', id) := alloc h v (mkCtx h [x; p] [(x, RPatchX y p index); (p, RPatchP y p index)]) name in
                (h', Ok id)
      | Err => (h, Err) | Panic => (h, Panic)
      end
  | _, _ => (h, Panic)
  end.

(* gradtrack.Concat: edge i slices [base_i, base_i + shape_i[dim]) along dim, every other range {0,0} *)
Fixpoint concatEdges (y : nat) (dim : nat) (xs : list (nat * T)) (base : Z) : list (nat * rule) :=
  match xs with
  | [] => []
  | (x, xv) :: rest =>
      let sz := Z.of_nat (nth dim (dims xv) 0) in
      let index := map (fun i => if i =? dim then (base, (base + sz)%Z) else (0%Z, 0%Z)) (seq 0 (length (dims xv))) in
      (x, RConcat y index) :: concatEdges y dim rest (base + sz)%Z
  end.

Definition h_concat (h : heap) (xs : list nat) (dim : Z) (name : option nat) : hres :=
  match mapM (valOf h) xs with
  | Some vs =>
      match v_concat vs dim with
      | Ok v => let y := length h in
                let '(h', id) := alloc h v (mkCtx h xs (concatEdges y (Z.to_nat dim) (combine xs vs) 0%Z)) name in
                (h', Ok id)
      | Err => (h, Err) | Panic => (h, Panic)
      end
  | None => (h, Panic)
  end.

(* ResetGradContext(tracked): t.gctx = NewGradContext(tracked) *)
Definition updNode (h : heap) (i : nat) (f : node -> node) : heap :=
  map (fun p : nat * node => if fst p =? i then f (snd p) else snd p) (combine (seq 0 (length h)) h).

Definition h_reset (h : heap) (x : nat) (tracked : bool) : heap :=
  updNode h x (fun n => mkNode (nval n) tracked false None [] (nname n)).

End Grad.
