(* Scalar.v — the operations the Go code applies to float64, as a class.
   Definitions only.  Instances: [term] (free algebra, used by the correspondence
   check: the Go driver evaluates the trees with Go's own math functions) here;
   [R] in Spec/RScalar.v (used by the analytic theorems). *)
From Coq Require Import List ZArith.
Import ListNotations.

Class Scalar (A : Type) : Type := {
  s0 : A;                         (* 0.  *)
  s1 : A;                         (* 1.  *)
  sadd : A -> A -> A;             (* a + b *)
  ssub : A -> A -> A;             (* a - b *)
  smul : A -> A -> A;             (* a * b *)
  sdiv : A -> A -> A;             (* a / b *)
  spow : A -> A -> A;             (* math.Pow(a, b) *)
  sexp : A -> A;  slog : A -> A;
  ssin : A -> A;  scos : A -> A;  stan : A -> A;
  ssinh : A -> A; scosh : A -> A; stanh : A -> A;
  ssqrt : A -> A;
  smax : A -> A -> A;             (* math.Max *)
  smin : A -> A -> A;             (* math.Min *)
  sselgt : A -> A -> A;           (* if a > b { a } else { b }   (reducer max) *)
  ssellt : A -> A -> A;           (* if a < b { a } else { b }   (reducer min) *)
  seqt : A -> A -> A;             (* |a-b| <= threshold -> 1. else 0. *)
  snet : A -> A -> A;             (* |a-b| <= threshold -> 0. else 1. *)
  sgt : A -> A -> A; sge : A -> A -> A;
  slt : A -> A -> A; sle : A -> A -> A;   (* 1. / 0. *)
  sgeb : A -> A -> A;             (* a >= b as a Go bool; observable only *)
  strunc : A -> A;                (* float64(int(a)); observable only (Accuracy) *)
  sofnat : nat -> A;              (* float64(n) *)
  sconst : Z -> Z -> A;           (* the literal  m e exp  =  m * 10^exp *)
  sneginf : A; sposinf : A;       (* math.Inf(-1), math.Inf(+1) *)
  srnd : bool -> nat -> A;        (* raw draw number k of the global source:
                                     false = Float64(), true = NormFloat64() *)
}.

(* ---------- free term algebra ---------- *)

Inductive unop := UExp | ULog | USin | UCos | UTan | USinh | UCosh | UTanh | USqrt | UTrunc.
Inductive binop := BAdd | BSub | BMul | BDiv | BPow | BMax | BMin | BSelGt | BSelLt
                 | BEq | BNe | BGt | BGe | BLt | BLe | BGeb.

Inductive term :=
| TVal (n k : nat)            (* observed element k of the value of tensor n *)
| TGrad (n t k : nat)         (* observed element k of the gradient of tensor n after command t *)
| TConst (m e : Z)
| TNat (n : nat)
| TNegInf | TPosInf
| TRnd (normal : bool) (k : nat)
| TUn (o : unop) (a : term)
| TBin (o : binop) (a b : term).

#[export] Instance term_scalar : Scalar term := {|
  s0 := TConst 0 0; s1 := TConst 1 0;
  sadd := TBin BAdd; ssub := TBin BSub; smul := TBin BMul; sdiv := TBin BDiv; spow := TBin BPow;
  sexp := TUn UExp; slog := TUn ULog; ssin := TUn USin; scos := TUn UCos; stan := TUn UTan;
  ssinh := TUn USinh; scosh := TUn UCosh; stanh := TUn UTanh; ssqrt := TUn USqrt;
  smax := TBin BMax; smin := TBin BMin; sselgt := TBin BSelGt; ssellt := TBin BSelLt;
  seqt := TBin BEq; snet := TBin BNe; sgt := TBin BGt; sge := TBin BGe; slt := TBin BLt; sle := TBin BLe;
  sgeb := TBin BGeb; strunc := TUn UTrunc; sofnat := TNat; sconst := TConst;
  sneginf := TNegInf; sposinf := TPosInf; srnd := TRnd
|}.
