(* Alias.v — caller-owned index slices (C10, second half).  Definitions only.

   Slice(index []Range) and Patch(index []Range, src) receive a Go slice owned by the caller.
   The back edge created by these calls needs the index again when the gradient is propagated.
   Two implementations are possible:
     [Copied]   the library copies the ranges at call time (the repaired code, fix for D9);
     [Retained] the back-edge closure captures the caller's slice header, i.e. it shares the
                backing array with the caller (the pinned code).
   The model: a store [slices] of caller-owned []Range values, commands that pass a store entry
   to Slice/Patch ([ASlice], [APatch]), caller-side mutation of an entry ([AMutate]), and all the
   ordinary commands ([ACore]).  In mode [Retained] the interpreter remembers which result node
   captured which store entry, and before every BackPropagate it REFRESHES the index stored in
   the rules RSliceX / RPatchX / RPatchP of those nodes with the CURRENT content of the entry —
   which is exactly what reading through a captured slice header does.  In mode [Copied] nothing
   is ever refreshed. *)
From Coq Require Import List Arith ZArith Bool.
From Qeep Require Import Model.Scalar Model.Nd Model.Fill Model.Data Model.Valid Model.Api
     Model.Grad Model.Backprop Model.Components Model.Scenario.
Import ListNotations.
Set Implicit Arguments.

Inductive retention := Copied | Retained.

Section Alias.
Context {A : Type} {SA : Scalar A}.
Notation T := (tensor A).

Variable rd : bred.
Variable sealv : nat -> T -> T.
Variable sealg : nat -> option nat -> T -> T.
Variables (c_eps c_one_m_eps : A) (c_leaky c_sgd_lr dFull dUniL dUniU dNorM dNorS : dec) (c_softmax_dim : Z).
Notation step := (step rd sealv sealg c_eps c_one_m_eps c_leaky c_sgd_lr dFull dUniL dUniU dNorM dNorS c_softmax_dim).

(* the caller's []Range values, by slice id *)
Definition store := list (list zrange).

Inductive acmd :=
| ASlice (t sid : nat)                       (* t.Slice(slices[sid]) *)
| APatch (t sid : nat) (u : targ)            (* t.Patch(slices[sid], u) *)
| AMutate (sid : nat) (new : list zrange)    (* the caller overwrites slices[sid] in place *)
| ACore (c : @cmd A).

(* core state, caller's store, (result node id, slice id) of every retained capture *)
Definition astate := (@state A * store * list (nat * nat))%type.

Definition setSlice (sl : store) (sid : nat) (new : list zrange) : store :=
  map (fun p : nat * list zrange => if fst p =? sid then new else snd p) (combine (seq 0 (length sl)) sl).

Definition refresh_rule (idx : list zrange) (r : @rule A) : @rule A :=
  match r with
  | RSliceX y x _ => RSliceX y x idx
  | RPatchX y p _ => RPatchX y p idx
  | RPatchP y p _ => RPatchP y p idx
  | _ => r
  end.

Definition refresh1 (sl : store) (h : @heap A) (rc : nat * nat) : @heap A :=
  updNode h (fst rc) (fun n =>
    mkNode (nval n) (ntracked n) (ndirty n) (ngrad n)
           (map (fun e : nat * @rule A => (fst e, refresh_rule (nth (snd rc) sl []) (snd e))) (nedges n))
           (nname n)).

Definition refresh (sl : store) (recs : list (nat * nat)) (h : @heap A) : @heap A :=
  fold_left (refresh1 sl) recs h.

(* the tensor a command created, if any: the entry under the name it reserved *)
Definition newTensor (s s' : @state A) : option nat :=
  match nth_error (st_env s') (length (st_env s)) with Some (OTensor id) => Some id | _ => None end.

Definition record (r : retention) (s s' : @state A) (sid : nat) (recs : list (nat * nat)) : list (nat * nat) :=
  match r, newTensor s s' with
  | Retained, Some id => (id, sid) :: recs
  | _, _ => recs
  end.

Definition is_backprop (c : @cmd A) : bool := match c with CBackprop _ => true | _ => false end.

Definition astep (r : retention) (st : astate) (c : acmd) : astate * @obs A :=
  let '(s, sl, recs) := st in
  match c with
  | ASlice t sid =>
      let '(s', o) := step s (CSlice t (nth sid sl [])) in ((s', sl, record r s s' sid recs), o)
  | APatch t sid u =>
      let '(s', o) := step s (CPatch t (nth sid sl []) u) in ((s', sl, record r s s' sid recs), o)
  | AMutate sid new =>
      let '(s', o) := step s CNop in ((s', setSlice sl sid new, recs), o)
  | ACore c =>
      let s1 := match r with
                | Retained => if is_backprop c
                              then mkState (refresh sl recs (st_heap s)) (st_env s) (st_rng s) else s
                | Copied => s
                end in
      let '(s', o) := step s1 c in ((s', sl, recs), o)
  end.

Fixpoint arun (r : retention) (st : astate) (p : list acmd) : list (@obs A) :=
  match p with
  | [] => []
  | c :: q => let '(st', o) := astep r st c in o :: arun r st' q
  end.

Fixpoint aexec (r : retention) (st : astate) (p : list acmd) : astate :=
  match p with
  | [] => st
  | c :: q => aexec r (fst (astep r st c)) q
  end.

(* the core program with the store content AT CALL TIME substituted *)
Fixpoint compile (sl : store) (p : list acmd) : list (@cmd A) :=
  match p with
  | [] => []
  | ASlice t sid :: q => CSlice t (nth sid sl []) :: compile sl q
  | APatch t sid u :: q => CPatch t (nth sid sl []) u :: compile sl q
  | AMutate sid new :: q => CNop :: compile (setSlice sl sid new) q
  | ACore c :: q => c :: compile sl q
  end.

(* the caller's store after the program *)
Fixpoint store_after (sl : store) (p : list acmd) : store :=
  match p with
  | [] => sl
  | AMutate sid new :: q => store_after (setSlice sl sid new) q
  | _ :: q => store_after sl q
  end.

(* does the program pass slices[sid] to the library? *)
Fixpoint uses (sid : nat) (p : list acmd) : bool :=
  match p with
  | [] => false
  | ASlice _ k :: q => (k =? sid) || uses sid q
  | APatch _ k _ :: q => (k =? sid) || uses sid q
  | _ :: q => uses sid q
  end.

End Alias.
