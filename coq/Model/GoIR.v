(* GoIR.v — a small imperative language for the INTEGER / SHAPE logic of qeep's tensor package
   (the validators of tensor/internal/validator, the shape helpers and the carry loops of the
   element generators of tensor/internal/cputensor) and its big-step semantics.
   harness/gox translates the Go sources into [fn] values (coq/Model/GoFns.v, regenerated on
   every run); Proofs/Go*P.v prove that running them IS the hand-written model (Model/Valid.v,
   Model/Data.v, Model/Fill.v) for all inputs.

   Values: Go [int] = [VI] (unbounded: overflow of Go's 64-bit int is NOT modelled), [bool],
   [tensor.Range{From,To}] = [VR], slices = [VL] (value semantics: no aliasing — the translator
   refuses functions that write through an alias or into a parameter), [error] = [VI 0] (nil) /
   [VI 1] (non-nil).  [None] / [OPanic] = the Go code would panic (index out of range, ...);
   loops and calls consume fuel.  Definitions only. *)
From Coq Require Import String List ZArith Bool.
Import ListNotations.
Local Open Scope Z_scope.

Inductive val := VI (z : Z) | VB (b : bool) | VR (f t : Z) | VL (l : list val).

Inductive binop := OAdd | OSub | OMul | ORem | OEq | ONe | OLt | OLe | OGt | OGe.

Inductive expr :=
| EInt (z : Z)
| EVar (x : string)
| ENil                                         (* nil slice *)
| ELen (a : expr)
| EIdx (a i : expr)                            (* a[i] *)
| EFrom (a : expr) | ETo (a : expr)            (* r.From, r.To *)
| EBin (o : binop) (a b : expr)
| ENot (a : expr) | EAnd (a b : expr) | EOr (a b : expr)   (* && and || short-circuit *)
| ESub (a : expr) (lo hi : option expr)        (* a[lo:hi] *)
| ERange (f t : expr)                          (* tensor.Range{From: f, To: t} *)
| EMakeInts (n : expr)                         (* make([]int, n) *)
| EMakeRanges (n : expr)                       (* make([]tensor.Range, n) *)
| EMakeLists (n : expr)                        (* make([][]int, n) *)
| EAppend (a : expr) (xs : list expr)          (* append(a, x1, ..., xn) *)
| EAppendAll (a b : expr)                      (* append(a, b...) *)
| EErrorf (args : list expr).                  (* fmt.Errorf(format, args...): evaluates the arguments, non-nil error *)

Inductive stmt :=
| SSkip
| SSet (x : string) (e : expr)                             (* x := e,  x = e *)
| SSetIdx (x : string) (i e : expr)                        (* x[i] = e *)
| SSetFld (x : string) (i : expr) (to : bool) (e : expr)   (* x[i].From = e (to = false) / x[i].To = e *)
| SCopy (x : string) (e : expr)                            (* copy(x, e) *)
| SSeq (a b : stmt)
| SIf (c : expr) (a b : stmt)
| SFor (c : expr) (post body : stmt)                       (* for ; c ; post { body } *)
| SRange (i x : string) (a : expr) (body : stmt)           (* for i, x := range a { body } *)
| SBreak | SContinue
| SRet (es : list expr)
| SCall (xs : list string) (f : string) (args : list expr) (* xs = f(args) *)
| SUnsupported (text : string).                            (* a statement the translator cannot express: panics *)

Fixpoint sseq (l : list stmt) : stmt :=
  match l with
  | [] => SSkip
  | [s] => s
  | s :: r => SSeq s (sseq r)
  end.

Record fn := mkFn { fparams : list string; fbody : stmt }.

(* a closure body in source order: statements outside the integer fragment are kept as text *)
Inductive item := IOpaque (text : string) | ICode (s : stmt).

Definition env := list (string * val).

Fixpoint lookup (e : env) (x : string) : option val :=
  match e with
  | [] => None
  | (y, v) :: r => if String.eqb x y then Some v else lookup r x
  end.

Fixpoint upd (e : env) (x : string) (v : val) : env :=
  match e with
  | [] => [(x, v)]
  | (y, w) :: r => if String.eqb x y then (y, v) :: r else (y, w) :: upd r x v
  end.

Fixpoint setNthV (l : list val) (i : nat) (v : val) : option (list val) :=
  match l, i with
  | [], _ => None
  | _ :: r, O => Some (v :: r)
  | x :: r, S i' => match setNthV r i' v with Some r' => Some (x :: r') | None => None end
  end.

Definition idxOf (z : Z) : option nat := if 0 <=? z then Some (Z.to_nat z) else None.

Definition zlenV (l : list val) : Z := Z.of_nat (length l).

Definition evalBin (o : binop) (a b : val) : option val :=
  match a, b with
  | VI x, VI y =>
      match o with
      | OAdd => Some (VI (x + y)) | OSub => Some (VI (x - y)) | OMul => Some (VI (x * y))
      | ORem => if y =? 0 then None else Some (VI (Z.rem x y))
      | OEq => Some (VB (x =? y)) | ONe => Some (VB (negb (x =? y)))
      | OLt => Some (VB (x <? y)) | OLe => Some (VB (x <=? y))
      | OGt => Some (VB (x >? y)) | OGe => Some (VB (x >=? y))
      end
  | _, _ => None
  end.

(* copy(dst, src): the first min(len dst, len src) elements of dst are replaced *)
Fixpoint copyInto (dst src : list val) : list val :=
  match dst, src with
  | _ :: d', s :: s' => s :: copyInto d' s'
  | _, _ => dst
  end.

Fixpoint eval (e : env) (x : expr) {struct x} : option val :=
  match x with
  | EInt z => Some (VI z)
  | EVar v => lookup e v
  | ENil => Some (VL [])
  | ELen a => match eval e a with Some (VL l) => Some (VI (zlenV l)) | _ => None end
  | EIdx a i =>
      match eval e a, eval e i with
      | Some (VL l), Some (VI z) => match idxOf z with Some n => nth_error l n | None => None end
      | _, _ => None
      end
  | EFrom a => match eval e a with Some (VR f _) => Some (VI f) | _ => None end
  | ETo a => match eval e a with Some (VR _ t) => Some (VI t) | _ => None end
  | EBin o a b =>
      match eval e a, eval e b with
      | Some va, Some vb => evalBin o va vb
      | _, _ => None
      end
  | ENot a => match eval e a with Some (VB b) => Some (VB (negb b)) | _ => None end
  | EAnd a b =>
      match eval e a with
      | Some (VB true) => match eval e b with Some (VB v) => Some (VB v) | _ => None end
      | Some (VB false) => Some (VB false)
      | _ => None
      end
  | EOr a b =>
      match eval e a with
      | Some (VB false) => match eval e b with Some (VB v) => Some (VB v) | _ => None end
      | Some (VB true) => Some (VB true)
      | _ => None
      end
  | ESub a lo hi =>
      match eval e a with
      | Some (VL l) =>
          let olo := match lo with None => Some (VI 0) | Some x => eval e x end in
          let ohi := match hi with None => Some (VI (zlenV l)) | Some x => eval e x end in
          match olo, ohi with
          | Some (VI zl), Some (VI zh) =>
              if (0 <=? zl) && (zl <=? zh) && (zh <=? zlenV l)
              then Some (VL (firstn (Z.to_nat (zh - zl)) (skipn (Z.to_nat zl) l)))
              else None
          | _, _ => None
          end
      | _ => None
      end
  | ERange f t =>
      match eval e f, eval e t with
      | Some (VI a), Some (VI b) => Some (VR a b)
      | _, _ => None
      end
  | EMakeInts n =>
      match eval e n with
      | Some (VI z) => if 0 <=? z then Some (VL (repeat (VI 0) (Z.to_nat z))) else None
      | _ => None
      end
  | EMakeRanges n =>
      match eval e n with
      | Some (VI z) => if 0 <=? z then Some (VL (repeat (VR 0 0) (Z.to_nat z))) else None
      | _ => None
      end
  | EMakeLists n =>
      match eval e n with
      | Some (VI z) => if 0 <=? z then Some (VL (repeat (VL []) (Z.to_nat z))) else None
      | _ => None
      end
  | EAppend a xs =>
      match eval e a with
      | Some (VL l) =>
          match (fix evs (xs : list expr) : option (list val) :=
                   match xs with
                   | [] => Some []
                   | y :: r => match eval e y, evs r with
                               | Some v, Some vs => Some (v :: vs)
                               | _, _ => None
                               end
                   end) xs with
          | Some vs => Some (VL (l ++ vs))
          | None => None
          end
      | _ => None
      end
  | EAppendAll a b =>
      match eval e a, eval e b with
      | Some (VL l), Some (VL m) => Some (VL (l ++ m))
      | _, _ => None
      end
  | EErrorf args =>
      match (fix evs (xs : list expr) : option (list val) :=
               match xs with
               | [] => Some []
               | y :: r => match eval e y, evs r with
                           | Some v, Some vs => Some (v :: vs)
                           | _, _ => None
                           end
               end) args with
      | Some _ => Some (VI 1)
      | None => None
      end
  end.

Fixpoint evals (e : env) (xs : list expr) : option (list val) :=
  match xs with
  | [] => Some []
  | y :: r => match eval e y, evals e r with
              | Some v, Some vs => Some (v :: vs)
              | _, _ => None
              end
  end.

Inductive outcome :=
| ONormal (e : env) | OBreak (e : env) | OContinue (e : env)
| ORet (vs : list val) | OPanic | OFuel.

Fixpoint bindArgs (ps : list string) (vs : list val) : option env :=
  match ps, vs with
  | [], [] => Some []
  | p :: ps', v :: vs' => match bindArgs ps' vs' with Some e => Some ((p, v) :: e) | None => None end
  | _, _ => None
  end.

Fixpoint assignAll (xs : list string) (vs : list val) (e : env) : option env :=
  match xs, vs with
  | [], [] => Some e
  | x :: xs', v :: vs' => assignAll xs' vs' (upd e x v)
  | _, _ => None
  end.

Definition ftable := list (string * fn).

Fixpoint lookupFn (ft : ftable) (f : string) : option fn :=
  match ft with
  | [] => None
  | (g, d) :: r => if String.eqb f g then Some d else lookupFn r f
  end.

Definition setElem (e : env) (x : string) (i : expr) (mk : val -> option val) : outcome :=
  match lookup e x, eval e i with
  | Some (VL l), Some (VI z) =>
      match idxOf z with
      | Some n =>
          match nth_error l n with
          | Some old =>
              match mk old with
              | Some nv => match setNthV l n nv with Some l' => ONormal (upd e x (VL l')) | None => OPanic end
              | None => OPanic
              end
          | None => OPanic
          end
      | None => OPanic
      end
  | _, _ => OPanic
  end.

(* for i, x := range l { body }: the slice is evaluated once; break leaves the loop, continue goes on *)
Fixpoint rangeLoop (body : env -> outcome) (i x : string) (l : list val) (k : Z) (e : env) : outcome :=
  match l with
  | [] => ONormal e
  | v :: l' =>
      match body (upd (upd e i (VI k)) x v) with
      | ONormal e1 | OContinue e1 => rangeLoop body i x l' (k + 1) e1
      | OBreak e1 => ONormal e1
      | o => o
      end
  end.

(* for ; cond ; post { body }: every iteration consumes one unit of fuel *)
Fixpoint forLoop (fuel : nat) (cond : env -> option val) (body post : env -> outcome) (e : env) : outcome :=
  match fuel with
  | O => OFuel
  | S fuel' =>
      match cond e with
      | Some (VB true) =>
          match body e with
          | ONormal e1 | OContinue e1 =>
              match post e1 with
              | ONormal e2 => forLoop fuel' cond body post e2
              | OFuel => OFuel
              | _ => OPanic
              end
          | OBreak e1 => ONormal e1
          | o => o
          end
      | Some (VB false) => ONormal e
      | _ => OPanic
      end
  end.

Section Exec.
(* [call f args]: the outcome of calling the translated function f ([ORet], [OPanic] or [OFuel]);
   [fuel]: bound on the iterations of each for loop *)
Variable call : string -> list val -> outcome.
Variable fuel : nat.

Fixpoint exec (s : stmt) (e : env) {struct s} : outcome :=
  match s with
  | SSkip => ONormal e
  | SSet x ex => match eval e ex with Some v => ONormal (upd e x v) | None => OPanic end
  | SSetIdx x i ex =>
      match eval e ex with
      | Some v => setElem e x i (fun _ => Some v)
      | None => OPanic
      end
  | SSetFld x i to ex =>
      match eval e ex with
      | Some (VI z) =>
          setElem e x i (fun old => match old with
                                    | VR f t => Some (if to then VR f z else VR z t)
                                    | _ => None
                                    end)
      | _ => OPanic
      end
  | SCopy x ex =>
      match lookup e x, eval e ex with
      | Some (VL d), Some (VL src) => ONormal (upd e x (VL (copyInto d src)))
      | _, _ => OPanic
      end
  | SSeq a b => match exec a e with ONormal e1 => exec b e1 | o => o end
  | SIf c a b =>
      match eval e c with
      | Some (VB true) => exec a e
      | Some (VB false) => exec b e
      | _ => OPanic
      end
  | SFor c post body => forLoop fuel (fun e' => eval e' c) (exec body) (exec post) e
  | SRange i x a body =>
      match eval e a with
      | Some (VL l) => rangeLoop (exec body) i x l 0 e
      | _ => OPanic
      end
  | SBreak => OBreak e
  | SContinue => OContinue e
  | SRet es => match evals e es with Some vs => ORet vs | None => OPanic end
  | SCall xs f args =>
      match evals e args with
      | Some vs =>
          match call f vs with
          | ORet rs => match assignAll xs rs e with Some e1 => ONormal e1 | None => OPanic end
          | OFuel => OFuel
          | _ => OPanic
          end
      | None => OPanic
      end
  | SUnsupported _ => OPanic
  end.
End Exec.

(* calls: nesting depth bounded by [depth] *)
Fixpoint callD (ft : ftable) (fuel depth : nat) (f : string) (vs : list val) : outcome :=
  match depth with
  | O => OFuel
  | S d =>
      match lookupFn ft f with
      | Some fd =>
          match bindArgs (fparams fd) vs with
          | Some e0 =>
              match exec (callD ft fuel d) fuel (fbody fd) e0 with
              | ORet rs => ORet rs
              | OFuel => OFuel
              | _ => OPanic
              end
          | None => OPanic
          end
      | None => OPanic
      end
  end.

(* run a function on argument values; [fuel] bounds loop iterations and call depth *)
Definition run (ft : ftable) (fuel : nat) (d : fn) (args : list val) : outcome :=
  match bindArgs (fparams d) args with
  | Some e0 => exec (callD ft fuel fuel) fuel (fbody d) e0
  | None => OPanic
  end.

(* the integer statements of a generator body, in order *)
Fixpoint codeOf (l : list item) : list stmt :=
  match l with
  | [] => []
  | ICode s :: r => s :: codeOf r
  | IOpaque _ :: r => codeOf r
  end.
Fixpoint opaqueOf (l : list item) : list string :=
  match l with
  | [] => []
  | ICode _ :: r => opaqueOf r
  | IOpaque t :: r => t :: opaqueOf r
  end.

(* embeddings used by the theorems *)
Definition ints (l : list Z) : val := VL (map VI l).
Definition nats (l : list nat) : val := VL (map (fun n => VI (Z.of_nat n)) l).
Definition ranges (l : list (Z * Z)) : val := VL (map (fun r => VR (fst r) (snd r)) l).
Definition intss (l : list (list Z)) : val := VL (map ints l).
Definition errOf (ok : bool) : val := VI (if ok then 0 else 1).

(* the shape of a generator body: opaque statements by text, integer code as [None] *)
Fixpoint itemShape (l : list item) : list (option string) :=
  match l with
  | [] => []
  | ICode _ :: r => None :: itemShape r
  | IOpaque t :: r => Some t :: itemShape r
  end.
