(* Nd.v — nested data as in CPUTensor{data any; dims []int}.  Definitions only.
   [Sc a] is a float64 stored in an [any]; [Vec l] is a []any.
   Every Go type assertion / index expression is a partial operation: [None] = the
   Go code panics (or builds a value whose later use panics). *)
From Coq Require Import List Arith ZArith Bool.
Import ListNotations.

Set Implicit Arguments.

Inductive nd (A : Type) : Type :=
| Sc (a : A)
| Vec (l : list (nd A)).
Arguments Sc {A} a.
Arguments Vec {A} l.

Record tensor (A : Type) : Type := mkT { dims : list nat; data : nd A }.
Arguments mkT {A} dims data.

(* outcome of a public call *)
Inductive res (T : Type) : Type := Ok (x : T) | Err | Panic.
Arguments Ok {T} x.
Arguments Err {T}.
Arguments Panic {T}.

Definition res_bind {T U} (r : res T) (f : T -> res U) : res U :=
  match r with Ok x => f x | Err => Err | Panic => Panic end.
(* a data-layer result ([None] = panic) lifted into a public result *)
Definition of_opt {T} (o : option T) : res T :=
  match o with Some x => Ok x | None => Panic end.

Definition obind {T U} (o : option T) (f : T -> option U) : option U :=
  match o with Some x => f x | None => None end.

Declare Scope res_scope.
Notation "'do' x <- a ; b" := (obind a (fun x => b)) (at level 200, x pattern, a at level 100, b at level 200).
Notation "'dor' x <- a ; b" := (res_bind a (fun x => b)) (at level 200, x pattern, a at level 100, b at level 200).

Section Nd.
Variable A : Type.

(* x.(float64) *)
Definition asF (x : nd A) : option A := match x with Sc a => Some a | Vec _ => None end.
(* x.([]any) *)
Definition asV (x : nd A) : option (list (nd A)) := match x with Vec l => Some l | Sc _ => None end.

(* t.dataAt(index) *)
Fixpoint dataAt (x : nd A) (idx : list nat) : option (nd A) :=
  match idx with
  | [] => Some x
  | i :: r => do l <- asV x; do y <- nth_error l i; dataAt y r
  end.

(* element at a full multi-index *)
Definition get (x : nd A) (idx : list nat) : option A := do y <- dataAt x idx; asF y.

Definition prodn (ds : list nat) : nat := fold_right Nat.mul 1 ds.

(* map a partial function over a list, failing if any element fails *)
Fixpoint mapM {T U} (f : T -> option U) (l : list T) : option (list U) :=
  match l with
  | [] => Some []
  | x :: r => do y <- f x; do ys <- mapM f r; Some (y :: ys)
  end.

(* row-major element sequence (total; used by specifications and observables) *)
Fixpoint flat (x : nd A) : list A :=
  match x with
  | Sc a => [a]
  | Vec l => (fix go (l : list (nd A)) : list A := match l with [] => [] | y :: r => flat y ++ go r end) l
  end.

(* nesting matches the shape *)
Fixpoint wfnd (ds : list nat) (x : nd A) {struct ds} : Prop :=
  match ds, x with
  | [], Sc _ => True
  | d :: r, Vec l => length l = d /\ Forall (wfnd r) l
  | _, _ => False
  end.

Fixpoint wfndb (ds : list nat) (x : nd A) {struct ds} : bool :=
  match ds, x with
  | [], Sc _ => true
  | d :: r, Vec l => Nat.eqb (length l) d && forallb (wfndb r) l
  | _, _ => false
  end.

Definition wf (t : tensor A) : Prop := wfnd (dims t) (data t) /\ Forall (fun d => 0 < d) (dims t).

(* tabulation of an index function *)
Fixpoint tab (ds : list nat) (f : list nat -> A) : nd A :=
  match ds with
  | [] => Sc (f [])
  | d :: r => Vec (map (fun k => tab r (fun i => f (k :: i))) (seq 0 d))
  end.

End Nd.

Arguments asF {A} x.
Arguments asV {A} x.
Arguments dataAt {A} x idx.
Arguments get {A} x idx.
Arguments flat {A} x.
Arguments wfnd {A} ds x.
Arguments wfndb {A} ds x.
Arguments wf {A} t.
Arguments tab {A} ds f.
