(* Data.v — the unexported data layer of tensor/internal/cputensor: accessors.go,
   shape_modifiers.go, reducers.go, operators.go, initializers.go.  Arguments are the
   already validated ones (naturals); [None] = the Go code would panic.  Definitions only. *)
From Coq Require Import List Arith ZArith Bool.
From Qeep Require Import Model.Scalar Model.Nd Model.Fill.
Import ListNotations.
Set Implicit Arguments.

Fixpoint foldM {T U} (f : U -> T -> option U) (l : list T) (u : U) : option U :=
  match l with [] => Some u | x :: r => do u' <- f u x; foldM f r u' end.

Definition range := (nat * nat)%type.      (* tensor.Range{From, To} *)

Section Data.
Context {A : Type} {SA : Scalar A}.
Notation T := (tensor A).

(* ---------------- accessors.go ---------------- *)

Definition numElems (t : T) : nat := prodn (dims t).

(* completeIndex *)
Fixpoint completeIndex (index : list range) (ds : list nat) : list range :=
  match ds with
  | [] => []
  | d :: ds' =>
      match index with
      | [] => (0, d) :: completeIndex [] ds'
      | (f, t) :: index' =>
          (if (f =? 0) && (t =? 0) then (0, d) else (f, t)) :: completeIndex index' ds'
      end
  end.

(* copiedSliceOf.copyData *)
Fixpoint sliceData (index : list range) (src : nd A) : option (nd A) :=
  match index with
  | [] => do a <- asF src; Some (Sc a)
  | (f, t) :: index' =>
      do rows <- asV src;
      do out <- mapM (fun i => do r <- nth_error rows (i + f); sliceData index' r) (seq 0 (t - f));
      Some (Vec out)
  end.

Definition copiedSliceOf (t : T) (index : list range) : option T :=
  do d <- sliceData index (data t);
  Some (mkT (map (fun r => snd r - fst r) index) d).

Definition slice (t : T) (index : list range) : option T :=
  copiedSliceOf t (completeIndex index (dims t)).

(* write v at position i of l; None when i is out of range *)
Fixpoint setNth {X} (l : list X) (i : nat) (v : X) : option (list X) :=
  match l, i with
  | [], _ => None
  | _ :: r, O => Some (v :: r)
  | x :: r, S i' => do r' <- setNth r i' v; Some (x :: r')
  end.

(* copiedWithPatchOf.copyData: writes src into dst at the offsets index[k].From *)
Fixpoint patchData (index : list range) (src dst : nd A) : option (nd A) :=
  match index with
  | [] => do a <- asF src; Some (Sc a)
  | (f, _) :: index' =>
      do srows <- asV src;
      do drows <- asV dst;
      do out <- foldM (fun (acc : list (nd A)) (ir : nat * nd A) =>
                         let '(i, srow) := ir in
                         do drow <- nth_error acc (i + f);
                         do nrow <- patchData index' srow drow;
                         setNth acc (i + f) nrow)
                      (combine (seq 0 (length srows)) srows) drows;
      Some (Vec out)
  end.

Definition patch (t : T) (index : list range) (u : T) : option T :=
  do o <- slice t [];
  do d <- patchData (completeIndex index (dims u)) (data u) (data o);
  Some (mkT (dims o) d).

(* ---------------- shape_modifiers.go ---------------- *)

Definition transposeDims (ds : list nat) : list nat := rev (swap01 (rev ds)).

Definition unsqueezeDims (dim : nat) (ds : list nat) : list nat :=
  firstn dim ds ++ 1 :: skipn dim ds.
Definition squeezeDims (dim : nat) (ds : list nat) : list nat :=
  firstn dim ds ++ skipn (S dim) ds.
Definition flattenDims (dim : nat) (ds : list nat) : list nat :=
  firstn dim ds ++ [prodn (skipn dim ds)].

Definition transpose (t : T) : option T :=
  do d <- initWith (transposeDims (dims t)) (trGen (dims t) (data t)) (linInit (dims t));
  Some (mkT (transposeDims (dims t)) d).

Definition reshape (t : T) (shape : list nat) : option T :=
  do d <- initWith shape (linGen (dims t) (data t)) (linInit (dims t));
  Some (mkT shape d).

Definition broadcast (t : T) (shape : list nat) : option T :=
  do d <- initWith shape (bcGen (data t)) (bcInit (dims t) shape);
  Some (mkT shape d).

Definition unSqueeze (t : T) (dim : nat) : option T := reshape t (unsqueezeDims dim (dims t)).
Definition squeeze (t : T) (dim : nat) : option T := reshape t (squeezeDims dim (dims t)).
Definition flatten (t : T) (dim : nat) : option T := reshape t (flattenDims dim (dims t)).

(* ---------------- reducers.go ---------------- *)

(* reduceByAssociativeFunc: trav(dims, data) *)
Fixpoint trav (af : A -> A -> A) (ds : list nat) (x : nd A) (value : A) : option A :=
  match ds with
  | [] => do a <- asF x; Some (af value a)
  | _ :: ds' => do rows <- asV x; foldM (fun v r => trav af ds' r v) rows value
  end.

Definition reduceBy (af : A -> A -> A) (identity : A) (t : T) : option A :=
  trav af (dims t) (data t) identity.

Definition r_sum (t : T) : option A := reduceBy sadd s0 t.
Definition r_max (t : T) : option A := reduceBy (fun a b => sselgt a b) sneginf t.
Definition r_min (t : T) : option A := reduceBy (fun a b => ssellt a b) sposinf t.
Definition r_avg (t : T) : option A := do s <- r_sum t; Some (sdiv s (sofnat (numElems t))).
Definition r_mean (t : T) : option A := r_avg t.
Definition r_var (t : T) : option A :=
  do xbar <- r_mean t;
  do sigma <- reduceBy (fun s x => sadd s (spow (ssub x xbar) (sconst 2 0))) s0 t;
  let n := numElems t in
  if 1 <? n then Some (sdiv sigma (ssub (sofnat n) s1)) else Some s0.
Definition r_std (t : T) : option A := do v <- r_var t; Some (ssqrt v).

Inductive reducer := RdSum | RdMax | RdMin | RdAvg | RdVar | RdStd | RdMean.
Definition reduce (r : reducer) : T -> option A :=
  match r with
  | RdSum => r_sum | RdMax => r_max | RdMin => r_min | RdAvg => r_avg
  | RdVar => r_var | RdStd => r_std | RdMean => r_mean
  end.

(* linearElemGeneratorWithReducedDim: state = index of every dimension (digit [dim] stays 0),
   least significant first; k = position of [dim] counted from the last dimension *)
Definition redRanges (dim : nat) (ds : list nat) (idx : list nat) : list range :=
  map (fun p : nat * (nat * nat) =>
         let '(i, (x, d)) := p in if i =? dim then (0, d) else (x, S x))
      (combine (seq 0 (length ds)) (combine idx ds)).

Definition redGen (r : reducer) (dim : nat) (t : T) : list nat -> option (nd A * list nat) :=
  fun st =>
    do row <- slice t (redRanges dim (dims t) (rev st));
    do v <- reduce r row;
    Some (Sc v, incr_skip (Some (length (dims t) - 1 - dim)) (rev (dims t)) st).

Definition reduceAlong (r : reducer) (t : T) (dim : nat) : option T :=
  let ds := squeezeDims dim (dims t) in
  do d <- initWith ds (redGen r dim t) (linInit (dims t));
  Some (mkT ds d).

(* ---------------- operators.go ---------------- *)

(* applyUnaryFuncOnTensorElemWise.calcData *)
Fixpoint calc1 (f : A -> A) (ds : list nat) (a : nd A) : option (nd A) :=
  match ds with
  | [] => do x <- asF a; Some (Sc (f x))
  | d :: ds' =>
      do aRows <- asV a;
      do out <- mapM (fun i => do ai <- nth_error aRows i; calc1 f ds' ai) (seq 0 d);
      Some (Vec out)
  end.

Definition apply1 (f : A -> A) (t : T) : option T :=
  do d <- calc1 f (dims t) (data t); Some (mkT (dims t) d).

(* applyBinaryFuncOnTensorsElemWise.calcData *)
Fixpoint calc2 (f : A -> A -> A) (ds : list nat) (a b : nd A) : option (nd A) :=
  match ds with
  | [] => do x <- asF a; do y <- asF b; Some (Sc (f x y))
  | d :: ds' =>
      do aRows <- asV a;
      do bRows <- asV b;
      do out <- mapM (fun i => do ai <- nth_error aRows i; do bi <- nth_error bRows i; calc2 f ds' ai bi) (seq 0 d);
      Some (Vec out)
  end.

Definition apply2 (f : A -> A -> A) (t1 t2 : T) : option T :=
  do d <- calc2 f (dims t1) (data t1) (data t2); Some (mkT (dims t1) d).

Inductive unary := UScale (a : A) | UPow (a : A) | UExpo | ULn | USine | UCosine | UTang | USinH | UCosH | UTanH.
Definition unaryF (u : unary) : A -> A :=
  match u with
  | UScale c => fun a => smul c a
  | UPow c => fun a => spow a c
  | UExpo => sexp | ULn => slog | USine => ssin | UCosine => scos | UTang => stan
  | USinH => ssinh | UCosH => scosh | UTanH => stanh
  end.

Inductive binary := BiEq | BiNe | BiGt | BiGe | BiLt | BiLe | BiElMax | BiElMin | BiAdd | BiSub | BiMul | BiDiv.
Definition binaryF (b : binary) : A -> A -> A :=
  match b with
  | BiEq => seqt | BiNe => snet | BiGt => sgt | BiGe => sge | BiLt => slt | BiLe => sle
  | BiElMax => smax | BiElMin => smin
  | BiAdd => sadd | BiSub => ssub | BiMul => smul | BiDiv => sdiv
  end.

(* equals: o := t.eq(u); o.sum() >= float64(o.numElems()) *)
Definition equalsD (t u : T) : option A :=
  do o <- apply2 seqt t u; do s <- r_sum o; Some (sgeb s (sofnat (numElems o))).

(* dotProductOf1DInputs *)
Definition dot1d (a b : nd A) : option (nd A) :=
  do v1 <- asV a; do v2 <- asV b;
  do s <- foldM (fun s i => do e1 <- nth_error v1 i; do x1 <- asF e1;
                            do e2 <- nth_error v2 i; do x2 <- asF e2;
                            Some (sadd s (smul x1 x2)))
                (seq 0 (length v1)) s0;
  Some (Sc s).

(* matMulDataOf2DInputs *)
Definition matmul2d (a b : nd A) : option (nd A) :=
  do m1 <- asV a; do m2 <- asV b;
  do r01 <- nth_error m1 0; do r0m1 <- asV r01;
  do r02 <- nth_error m2 0; do r0m2 <- asV r02;
  let n := length r0m1 in
  let k := length r0m2 in
  do rows <- mapM (fun i =>
      do row <- mapM (fun j =>
          do e <- foldM (fun eij p =>
                do mi <- nth_error m1 i; do rim1 <- asV mi;
                do mp <- nth_error m2 p; do rpm2 <- asV mp;
                do e1 <- nth_error rim1 p; do x1 <- asF e1;
                do e2 <- nth_error rpm2 j; do x2 <- asF e2;
                Some (sadd eij (smul x1 x2))) (seq 0 n) s0;
          Some (Sc e)) (seq 0 k);
      Some (Vec row)) (seq 0 (length m1));
  Some (Vec rows).

(* linearLastDimDotProductElemGenerator / linearLast2DimsMatMulElemGenerator:
   a linear odometer over the leading dims of t1 *)
Definition batchGen (f : nd A -> nd A -> option (nd A)) (bds : list nat) (x1 x2 : nd A)
  : list nat -> option (nd A * list nat) :=
  fun st => do d1 <- dataAt x1 (rev st); do d2 <- dataAt x2 (rev st);
            do r <- f d1 d2; Some (r, incr (rev bds) st).

Definition dotDims (ds : list nat) : list nat := firstn (length ds - 1) ds.

Definition dot (t1 t2 : T) : option T :=
  let bds := dotDims (dims t1) in
  do d <- initWith bds (batchGen dot1d bds (data t1) (data t2)) (linInit bds);
  Some (mkT bds d).

Definition matMulDims (d1 d2 : list nat) : option (list nat) :=
  let td := length d1 in
  do m <- nth_error d1 (td - 2);
  do k <- nth_error d2 (td - 1);
  Some (firstn (td - 2) d1 ++ [m; k]).

Definition matMul (t1 t2 : T) : option T :=
  do ds <- matMulDims (dims t1) (dims t2);
  let bds := firstn (length (dims t1) - 2) (dims t1) in
  do d <- initWith bds (batchGen matmul2d bds (data t1) (data t2)) (linInit bds);
  Some (mkT ds d).

(* targetBroadcastDims, on reversed (last dimension first) lists *)
Fixpoint tbdRev (r1 r2 : list nat) : list nat :=
  match r1, r2 with
  | [], l => l
  | l, [] => l
  | a :: r1', b :: r2' => Nat.max a b :: tbdRev r1' r2'
  end.
Definition targetBroadcastDims (d1 d2 : list nat) : list nat := rev (tbdRev (rev d1) (rev d2)).

(* ---------------- initializers.go ---------------- *)

Definition constTensor (v : A) (ds : list nat) : option T :=
  do d <- initWith ds (constGen v) tt; Some (mkT ds d).

Definition eyeMatrix (n : nat) : option T :=
  do d <- initWith [n; n] (eyeGen n) 0; Some (mkT [n; n] d).

(* uniformRandomTensor / normalRandomTensor: element k is  draw(pos+k) * (u - l) + l  resp.
   draw(pos+k) * s + u   (gonum distuv Uniform.Rand / Normal.Rand on the global source) *)
Definition uniformGen (l u : A) : nat -> option (nd A * nat) :=
  fun p => Some (Sc (sadd (smul (srnd false p) (ssub u l)) l), S p).
Definition normalGen (u s : A) : nat -> option (nd A * nat) :=
  fun p => Some (Sc (sadd (smul (srnd true p) s) u), S p).

Definition uniformRandomTensor (l u : A) (ds : list nat) (pos : nat) : option T :=
  do d <- initWith ds (uniformGen l u) pos; Some (mkT ds d).
Definition normalRandomTensor (u s : A) (ds : list nat) (pos : nat) : option T :=
  do d <- initWith ds (normalGen u s) pos; Some (mkT ds d).

(* initTensorFromData: dims are read off the first elements (len(v), len(v[0]), ...),
   every row is copied into a fresh []any of that length.  A row longer than the first
   panics (index out of range); a shorter one leaves nil entries whose later use panics:
   both are [None] here. *)
Fixpoint shapeOf (x : nd A) : list nat :=
  match x with
  | Sc _ => []
  | Vec l => length l :: match l with [] => [] | y :: _ => shapeOf y end
  end.

Fixpoint copyData (ds : list nat) (x : nd A) : option (nd A) :=
  match ds with
  | [] => do a <- asF x; Some (Sc a)
  | d :: ds' =>
      do rows <- asV x;
      if length rows =? d then do out <- mapM (copyData ds') rows; Some (Vec out) else None
  end.

Definition initTensorFromData (x : nd A) : option T :=
  let ds := shapeOf x in do d <- copyData ds x; Some (mkT ds d).

(* initConcatResultTensor.fillCat; k = dim - depth *)
Fixpoint fillCat (k : nat) (ds : list nat) (seeds : list (nd A)) : option (nd A) :=
  match k with
  | O => do parts <- mapM asV seeds; Some (Vec (concat parts))
  | S k' =>
      match ds with
      | [] => None
      | d :: ds' =>
          do rows <- mapM (fun i =>
               do seedRows <- mapM (fun s => do l <- asV s; nth_error l i) seeds;
               fillCat k' ds' seedRows) (seq 0 d);
          Some (Vec rows)
      end
  end.

Definition getConcatDims (ts : list T) (dim : nat) : option (list nat) :=
  do common <- foldM (fun c t => do d <- nth_error (dims t) dim; Some (c + d)) ts 0;
  do t0 <- nth_error ts 0;
  do r <- setNth (dims t0) dim common;
  Some r.

Definition concatD (ts : list T) (dim : nat) : option T :=
  do copies <- mapM (fun t => do c <- slice t []; Some (data c)) ts;
  do ds <- getConcatDims ts dim;
  do d <- fillCat dim ds copies;
  Some (mkT ds d).

End Data.
