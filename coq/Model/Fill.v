(* Fill.v — CPUTensor.initWith and the element generators of
   tensor/internal/cputensor/{initializers,shape_modifiers,reducers,operators}.go.
   A Go generator is a closure with mutable state called once per element in row-major
   order; here it is a state-passing function  St -> option (nd A * St).
   Odometer states are kept least-significant digit first (the Go loops start at the last
   dimension and carry towards dimension 0).  Definitions only. *)
From Coq Require Import List Arith ZArith Bool.
From Qeep Require Import Model.Scalar Model.Nd.
Import ListNotations.
Set Implicit Arguments.

Section Fill.
Variables (A St : Type).

Fixpoint rep (n : nat) (f : St -> option (nd A * St)) (s : St) : option (list (nd A) * St) :=
  match n with
  | O => Some ([], s)
  | S n' => do xs1 <- f s; let '(x, s1) := xs1 in
            do r <- rep n' f s1; let '(xs, s2) := r in Some (x :: xs, s2)
  end.

(* fill(dims, &data) of initWith: rows := make([]any, dims[0]); for i := range rows { fill(dims[1:], &rows[i]) } *)
Fixpoint fill (ds : list nat) (g : St -> option (nd A * St)) (s : St) : option (nd A * St) :=
  match ds with
  | [] => g s
  | d :: r => do rs <- rep d (fill r g) s; let '(rows, s') := rs in Some (Vec rows, s')
  end.

Definition initWith (ds : list nat) (g : St -> option (nd A * St)) (s0 : St) : option (nd A) :=
  do r <- fill ds g s0; Some (fst r).

End Fill.

(* ---------- odometers ---------- *)

(* the carry loop   if state[i] < dims[i]-1 { state[i]++; break } else { state[i] = 0; i-- } *)
Fixpoint incr (ds st : list nat) : list nat :=
  match ds, st with
  | d :: ds', x :: st' => if S x <? d then S x :: st' else 0 :: incr ds' st'
  | _, _ => []
  end.

(* the same loop skipping digit k ("if i == dim { i--; continue }") *)
Fixpoint incr_skip (k : option nat) (ds st : list nat) : list nat :=
  match ds, st with
  | d :: ds', x :: st' =>
      match k with
      | Some O => x :: incr_skip None ds' st'
      | _ => if S x <? d then S x :: st' else 0 :: incr_skip (option_map pred k) ds' st'
      end
  | _, _ => []
  end.

Definition swap01 {T} (l : list T) : list T :=
  match l with a :: b :: r => b :: a :: r | _ => l end.

(* broadcastElemGenerator: one record per target dimension, least significant first *)
Record bpos := mkBpos { bsrc : option nat; bshp : nat; bstt : nat; brpt : nat }.

Fixpoint mkbpos (rsrc rshape : list nat) : list bpos :=
  match rshape with
  | [] => []
  | sh :: rsh' =>
      match rsrc with
      | d :: rs' => mkBpos (Some d) sh 0 0 :: mkbpos rs' rsh'
      | [] => mkBpos None sh 0 0 :: mkbpos [] rsh'
      end
  end.

Fixpoint bstep (ps : list bpos) : list bpos :=
  match ps with
  | [] => []
  | p :: r =>
      match bsrc p with
      | Some d =>
          if S (bstt p) <? d then mkBpos (bsrc p) (bshp p) (S (bstt p)) (brpt p) :: r
          else
            let rp' := S (brpt p) in
            if (d =? bshp p) || (rp' =? bshp p)
            then mkBpos (bsrc p) (bshp p) 0 0 :: bstep r
            else mkBpos (bsrc p) (bshp p) 0 rp' :: r
      | None =>
          let rp' := S (brpt p) in
          if rp' =? bshp p then mkBpos None (bshp p) 0 0 :: bstep r
          else mkBpos None (bshp p) 0 rp' :: r
      end
  end.

Definition bsrcidx (ps : list bpos) : list nat :=
  rev (map bstt (filter (fun p => match bsrc p with Some _ => true | None => false end) ps)).

Section Gens.
Context {A : Type} {SA : Scalar A}.

Definition constGen (v : A) : unit -> option (nd A * unit) := fun s => Some (Sc v, s).

(* eyeElemGenerator *)
Definition eyeGen (n : nat) : nat -> option (nd A * nat) :=
  fun s => Some (Sc (if (s mod (n + 1)) =? 0 then s1 else s0), S s).

(* linearElemGenerator *)
Definition linGen (ds : list nat) (x : nd A) : list nat -> option (nd A * list nat) :=
  fun st => do e <- dataAt x (rev st); Some (e, incr (rev ds) st).
Definition linInit (ds : list nat) : list nat := repeat 0 (length ds).

(* transposeElemGenerator: the carry visits dimension n-2 first, then n-1, then n-3, ..., 0;
   the state is stored in that order *)
Definition trGen (ds : list nat) (x : nd A) : list nat -> option (nd A * list nat) :=
  fun st => do e <- dataAt x (rev (swap01 st)); Some (e, incr (swap01 (rev ds)) st).

(* broadcastElemGenerator *)
Definition bcGen (x : nd A) : list bpos -> option (nd A * list bpos) :=
  fun ps => do e <- dataAt x (bsrcidx ps); Some (e, bstep ps).
Definition bcInit (src shape : list nat) : list bpos := mkbpos (rev src) (rev shape).

End Gens.
