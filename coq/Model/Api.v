(* Api.v — the public methods of cputensor.go at the value level: validator, then data layer.
   Integer arguments are Go ints (Z) and may be anything; [Err] = the method returns an
   error, [Panic] = the data layer was reached with arguments it cannot handle.
   Gradient contexts are added on top of these in Grad.v.  Definitions only. *)
From Coq Require Import List Arith ZArith Bool.
From Qeep Require Import Model.Scalar Model.Nd Model.Fill Model.Data Model.Valid.
Import ListNotations.
Set Implicit Arguments.

Definition zdims {A} (t : tensor A) : list Z := map Z.of_nat (dims t).
Definition natsOf (l : list Z) : list nat := map Z.to_nat l.
Definition rangesOf (l : list zrange) : list range := map (fun r => (Z.to_nat (fst r), Z.to_nat (snd r))) l.

Section Api.
Context {A : Type} {SA : Scalar A}.
Notation T := (tensor A).

Definition guard (ok : bool) (k : res T) : res T := if ok then k else Err.

(* ---- constructors ---- *)
Definition v_full (ds : list Z) (v : A) : res T :=
  guard (validateInputDims ds) (of_opt (constTensor v (natsOf ds))).
Definition v_eye (n : Z) : res T :=
  guard (validateInputDims [n; n]) (of_opt (eyeMatrix (Z.to_nat n))).
(* l < u  and  s > 0  are decided on the decimal parameters by the caller (Scenario) *)
Definition v_randu (ds : list Z) (l u : A) (lt_ok : bool) (pos : nat) : res T :=
  guard lt_ok (guard (validateInputDims ds) (of_opt (uniformRandomTensor l u (natsOf ds) pos))).
Definition v_randn (ds : list Z) (u s : A) (pos_ok : bool) (pos : nat) : res T :=
  guard pos_ok (guard (validateInputDims ds) (of_opt (normalRandomTensor u s (natsOf ds) pos))).
Definition v_tensorOf (x : nd A) : res T :=
  guard (dataUnity x) (of_opt (initTensorFromData x)).

(* ---- accessors ---- *)
Definition v_at (t : T) (index : list Z) : res A :=
  if validateAtIndexAgainstDims index (zdims t)
  then of_opt (get (data t) (natsOf index)) else Err.
Definition v_slice (t : T) (index : list zrange) : res T :=
  guard (validateSliceIndexAgainstDims index (zdims t)) (of_opt (slice t (rangesOf index))).
Definition v_patch (t : T) (index : list zrange) (u : T) : res T :=
  guard (validatePatchIndexAgainstDims index (zdims u) (zdims t)) (of_opt (patch t (rangesOf index) u)).

(* ---- shape modifiers ---- *)
Definition v_transpose (t : T) : res T :=
  guard (validateTransposeDims (zdims t)) (of_opt (transpose t)).
Definition v_reshape (t : T) (shape : list Z) : res T :=
  guard (validateInputDims shape) (guard (validateReshape (zdims t) shape) (of_opt (reshape t (natsOf shape)))).
Definition v_unsqueeze (t : T) (dim : Z) : res T :=
  guard (validateUnSqueezeDim dim (zdims t)) (of_opt (unSqueeze t (Z.to_nat dim))).
Definition v_squeeze (t : T) (dim : Z) : res T :=
  guard (validateSqueezeDim dim (zdims t)) (of_opt (squeeze t (Z.to_nat dim))).
Definition v_flatten (t : T) (dim : Z) : res T :=
  guard (validateFlattenDim dim (zdims t)) (of_opt (flatten t (Z.to_nat dim))).
Definition v_broadcast (t : T) (shape : list Z) : res T :=
  guard (validateInputDims shape) (guard (validateBroadcast (zdims t) shape) (of_opt (broadcast t (natsOf shape)))).

(* ---- reducers ---- *)
Definition v_reduce (r : reducer) (t : T) : res A := of_opt (reduce r t).
Definition v_reduceAlong (r : reducer) (t : T) (dim : Z) : res T :=
  guard (validateReducedDimAgainstDims dim (zdims t)) (of_opt (reduceAlong r t (Z.to_nat dim))).

(* ---- operators ---- *)
Definition v_unary (u : unary) (t : T) : res T := of_opt (apply1 (unaryF u) t).

(* Eq..Le, ElMax, ElMin: shapes must match exactly *)
Definition v_same (b : binary) (t u : T) : res T :=
  guard (validateBinaryFuncDimsMatch (zdims t) (zdims u)) (of_opt (apply2 (binaryF b) t u)).

(* broadcastForBinaryOp *)
Definition v_bcast2 (t u : T) : res (T * T) :=
  let shape := map Z.of_nat (targetBroadcastDims (dims t) (dims u)) in
  dor t1 <- v_broadcast t shape; dor t2 <- v_broadcast u shape; Ok (t1, t2).

(* Add/Sub/Mul/Div *)
Definition v_arith (b : binary) (t u : T) : res T :=
  dor p <- v_bcast2 t u; of_opt (apply2 (binaryF b) (fst p) (snd p)).

Definition v_dot (t u : T) : res T :=
  if validateDotProductDims (zdims t) (zdims u)
  then dor p <- v_bcast2 t u; of_opt (dot (fst p) (snd p)) else Err.

(* broadcastForMatMul: the target shape with the last two entries replaced by each operand's own *)
Definition mmShape (shape own : list nat) : list nat :=
  firstn (length shape - 2) shape ++ skipn (length own - 2) own.
Definition v_bcastMM (t u : T) : res (T * T) :=
  let shape := targetBroadcastDims (dims t) (dims u) in
  dor t1 <- v_broadcast t (map Z.of_nat (mmShape shape (dims t)));
  dor t2 <- v_broadcast u (map Z.of_nat (mmShape shape (dims u)));
  Ok (t1, t2).
Definition v_matmul (t u : T) : res T :=
  if validateMatMulDims (zdims t) (zdims u)
  then dor p <- v_bcastMM t u; of_opt (matMul (fst p) (snd p)) else Err.

Definition v_equals (t u : T) : res A :=
  if validateBinaryFuncDimsMatch (zdims t) (zdims u) then of_opt (equalsD t u) else Err.

Definition v_concat (ts : list T) (dim : Z) : res T :=
  if (length ts <? 2)%nat then Err else
  match validateConcatTensorsDimsAlongDim (map zdims ts) dim with
  | None => Panic
  | Some false => Err
  | Some true => of_opt (concatD ts (Z.to_nat dim))
  end.

End Api.
