(* Components.v — component/{layers,layers/activations,losses,optimizers,metrics,initializers}:
   compositions of public tensor methods, in the order the Go code calls them (so the autograd
   graph is the same).  Intermediate tensors are internal (unnamed) nodes; only the returned
   tensor carries the caller-visible name.  Definitions only. *)
From Coq Require Import List Arith ZArith Bool.
From Qeep Require Import Model.Scalar Model.Nd Model.Fill Model.Data Model.Valid Model.Api Model.Grad.
Import ListNotations.
Set Implicit Arguments.

(* decimal literals  m * 10^e  (scalar parameters of the API) *)
Definition dec := (Z * Z)%type.
Definition dec_zero (d : dec) : bool := (fst d =? 0)%Z.
Definition dec_cmp (a b : dec) : comparison :=
  let e := Z.min (snd a) (snd b) in
  Z.compare (fst a * 10 ^ (snd a - e))%Z (fst b * 10 ^ (snd b - e))%Z.
Definition dec_lt (a b : dec) : bool := match dec_cmp a b with Lt => true | _ => false end.
Definition dec_pos (a : dec) : bool := (0 <? fst a)%Z.

Section Components.
Context {A : Type} {SA : Scalar A}.
Notation T := (tensor A).
Notation heap := (@heap A).
Notation hres := (@hres A).

Definition dcst (d : dec) : A := sconst (fst d) (snd d).

Definition hbind (r : hres) (f : heap -> nat -> hres) : hres :=
  match r with
  | (h, Ok id) => f h id
  | (h, Err) => (h, Err)
  | (h, Panic) => (h, Panic)
  end.
Notation "'doh' ( h , x ) <- a ; b" := (hbind a (fun h x => b)) (at level 200, h name, x name, a at level 100, b at level 200).

(* a failing call leaves nothing reachable behind: report the original heap *)
Definition atomically (h0 : heap) (r : hres) : hres :=
  match r with (h, Ok id) => (h, Ok id) | (_, Err) => (h0, Err) | (_, Panic) => (h0, Panic) end.

Definition rankOf (h : heap) (x : nat) : nat := match valOf h x with Some v => length (dims v) | None => 0 end.
Definition dim0Of (h : heap) (x : nat) : nat := match valOf h x with Some v => nth 0 (dims v) 0 | None => 0 end.
Definition dim1Of (h : heap) (x : nat) : nat := match valOf h x with Some v => nth 1 (dims v) 0 | None => 0 end.

(* a tensor argument as the caller passes it: nil or a tensor *)
Definition targ := option nat.

(* "expected exactly one input tensor", "not nil" *)
Definition oneInput (xs : list targ) : option nat :=
  match xs with [Some x] => Some x | _ => None end.

(* ---------------- layers/fc.go ---------------- *)
Definition fc_forward (h : heap) (w b : nat) (xs : list targ) (name : option nat) : hres :=
  match oneInput xs with
  | None => (h, Err)
  | Some x =>
      if negb (rankOf h x =? 2) then (h, Err) else
      atomically h (
        doh (h1, w1) <- h_unsqueeze h w 1%Z None;
        doh (h2, x1) <- h_unsqueeze h1 x 1%Z None;
        doh (h3, y1) <- h_matmul h2 w1 x1 None;
        doh (h4, y2) <- h_reduceAlong h3 RdSum y1 2%Z None;
        h_arith h4 BiAdd y2 b name)
  end.

(* ---------------- layers/activations ---------------- *)
Definition relu_forward (h : heap) (xs : list targ) (name : option nat) : hres :=
  match oneInput xs with
  | None => (h, Err)
  | Some x => atomically h (
      doh (h1, z) <- h_scale h x (cst 0 0) None;
      h_elsel h1 BiElMax z x name)
  end.

Definition leaky_forward (h : heap) (m : A) (xs : list targ) (name : option nat) : hres :=
  match oneInput xs with
  | None => (h, Err)
  | Some x => atomically h (
      doh (h1, z) <- h_scale h x (cst 0 0) None;
      doh (h2, p1) <- h_elsel h1 BiElMax z x None;
      doh (h3, p2) <- h_elsel h2 BiElMin z x None;
      doh (h4, p3) <- h_scale h3 p2 m None;
      h_arith h4 BiAdd p1 p3 name)
  end.

Definition sigmoid_forward (h : heap) (xs : list targ) (name : option nat) : hres :=
  match oneInput xs with
  | None => (h, Err)
  | Some x => atomically h (
      doh (h1, one) <- h_pow h x (cst 0 0) true None;
      doh (h2, nx) <- h_scale h1 x (cst (-1) 0) None;
      doh (h3, ex) <- h_math h2 FExp nx None;
      doh (h4, y) <- h_arith h3 BiAdd one ex None;
      h_pow h4 y (cst (-1) 0) false name)
  end.

Definition tanh_forward (h : heap) (xs : list targ) (name : option nat) : hres :=
  match oneInput xs with
  | None => (h, Err)
  | Some x => h_math h FTanh x name
  end.

(* Softmax (with fix F5: the normaliser is unsqueezed back before dividing) *)
Definition softmax_forward (h : heap) (dim : nat) (xs : list targ) (name : option nat) : hres :=
  match oneInput xs with
  | None => (h, Err)
  | Some x =>
      if rankOf h x <=? dim then (h, Err) else
      atomically h (
        doh (h1, ex) <- h_math h FExp x None;
        doh (h2, s) <- h_reduceAlong h1 RdSum ex (Z.of_nat dim) None;
        doh (h3, su) <- h_unsqueeze h2 s (Z.of_nat dim) None;
        h_arith h3 BiDiv ex su name)
  end.

(* ---------------- losses ---------------- *)
Definition clip (h : heap) (x : nat) (l u : A) : hres :=
  doh (h1, one) <- h_pow h x (cst 0 0) true None;
  doh (h2, lower) <- h_scale h1 one l None;
  doh (h3, upper) <- h_scale h2 one u None;
  doh (h4, y) <- h_elsel h3 BiElMin x upper None;
  h_elsel h4 BiElMax lower y None.

Definition lossArgs1 (h : heap) (yp yt : targ) : option (nat * nat) :=
  match yp, yt with
  | Some p, Some t =>
      if (rankOf h p =? 1) && (rankOf h t =? 1) && (dim0Of h p =? dim0Of h t) then Some (p, t) else None
  | _, _ => None
  end.

Definition mse_compute (h : heap) (yp yt : targ) (name : option nat) : hres :=
  match lossArgs1 h yp yt with
  | None => (h, Err)
  | Some (p, t) => atomically h (
      doh (h1, d) <- h_arith h BiSub t p None;
      doh (h2, d2) <- h_pow h1 d (cst 2 0) false None;
      h_reduceAlong h2 RdMean d2 0%Z name)
  end.

Variable eps : A.          (* losses.epsilon *)
Variable one_m_eps : A.    (* 1 - epsilon, a compile-time constant in Go *)

Definition bce_compute (h : heap) (yp yt : targ) (name : option nat) : hres :=
  match lossArgs1 h yp yt with
  | None => (h, Err)
  | Some (p, t) => atomically h (
      doh (h1, ytc) <- clip h t (cst 0 0) (cst 1 0);
      doh (h2, ypc) <- clip h1 p eps one_m_eps;
      doh (h3, lp) <- h_math h2 FLog ypc None;
      doh (h4, sA) <- h_arith h3 BiMul ytc lp None;
      doh (h5, one) <- h_pow h4 ypc (cst 0 0) true None;
      doh (h6, t2) <- h_arith h5 BiSub one ytc None;
      doh (h7, y2) <- h_arith h6 BiSub one ypc None;
      doh (h8, ly2) <- h_math h7 FLog y2 None;
      doh (h9, sB) <- h_arith h8 BiMul t2 ly2 None;
      doh (h10, l) <- h_arith h9 BiAdd sA sB None;
      doh (h11, ln) <- h_scale h10 l (cst (-1) 0) None;
      h_reduceAlong h11 RdMean ln 0%Z name)
  end.

Definition ce_compute (h : heap) (yp yt : targ) (name : option nat) : hres :=
  match yp, yt with
  | Some p, Some t =>
      if (rankOf h p =? 2) && (rankOf h t =? 2) && (dim0Of h p =? dim0Of h t) && (dim1Of h p =? dim1Of h t)
      then atomically h (
        doh (h1, ytc) <- clip h t (cst 0 0) (cst 1 0);
        doh (h2, ypc) <- clip h1 p eps one_m_eps;
        doh (h3, lp) <- h_math h2 FLog ypc None;
        doh (h4, s) <- h_arith h3 BiMul ytc lp None;
        doh (h5, l) <- h_reduceAlong h4 RdSum s 1%Z None;
        doh (h6, ln) <- h_scale h5 l (cst (-1) 0) None;
        h_reduceAlong h6 RdMean ln 0%Z name)
      else (h, Err)
  | _, _ => (h, Err)
  end.

(* ---------------- optimizers/sgd.go ---------------- *)
(* Update(wptr): the cell content is a node id ([None] = the cell holds nil).  The result is
   computed from the gradient tensor (always spent) hence is itself spent and untracked. *)
Definition sgd_update (h : heap) (lr : A) (cell : option nat) (name : option nat) : hres :=
  match cell with
  | None => (h, Err)
  | Some w =>
      match valOf h w, gradOf h w with
      | Some wv, Some g =>
          match (dor delta <- v_unary (UScale lr) g; v_arith BiSub wv delta) with
          | Ok v => let '(h', id) := alloc h v (false, true, []) name in (h', Ok id)
          | Err => (h, Err)
          | Panic => (h, Panic)
          end
      | Some _, None => (h, Err)
      | None, _ => (h, Panic)
      end
  end.

(* ---------------- metrics/accuracy.go ---------------- *)
Record accuracy := mkAcc { acc_total : nat; acc_correct : A }.
Definition acc_new : accuracy := mkAcc 0 (cst 0 0).

Definition acc_accumulate (h : heap) (a : accuracy) (yp yt : targ) : accuracy * res unit :=
  match lossArgs1 h yp yt with
  | None => (a, Err)
  | Some (p, t) =>
      match valOf h p, valOf h t with
      | Some pv, Some tv =>
          match v_same BiEq pv tv with
          | Ok eq =>
              match r_sum eq with
              | Some s => (mkAcc (acc_total a + nth 0 (dims eq) 0) (sadd (acc_correct a) (strunc s)), Ok tt)
              | None => (a, Panic)
              end
          | Err => (a, Err)
          | Panic => (a, Panic)
          end
      | _, _ => (a, Panic)
      end
  end.

Definition acc_result (a : accuracy) : A :=
  if acc_total a =? 0 then cst 0 0 else sdiv (acc_correct a) (sofnat (acc_total a)).

(* ---------------- initializers ---------------- *)
Inductive initSpec :=
| IFull (v : option dec)                         (* nil config: 0 *)
| IUniform (lu : option (dec * dec))             (* nil config: [-0.05, 0.05) *)
| INormal (ms : option (dec * dec))              (* nil config: (0, 0.05) *)
| IHeUniform (fanIn : option Z)
| IHeNormal (fanIn : option Z)
| IXavierUniform (fans : option (Z * Z))
| IXavierNormal (fans : option (Z * Z)).

Variables (dFull dUniL dUniU dNorM dNorS : dec).   (* defaults, from Consts.v *)

(* constructor validation: [false] = New... returns an error *)
Definition init_valid (s : initSpec) : bool :=
  match s with
  | IFull _ => true
  | IUniform None => dec_lt dUniL dUniU
  | IUniform (Some (l, u)) => dec_lt l u
  | INormal None => dec_pos dNorS
  | INormal (Some (_, sd)) => dec_pos sd
  | IHeUniform None | IHeNormal None | IXavierUniform None | IXavierNormal None => false
  | IHeUniform (Some f) | IHeNormal (Some f) => (0 <? f)%Z
  | IXavierUniform (Some (fi, fo)) | IXavierNormal (Some (fi, fo)) => (0 <? fi)%Z && (0 <? fo)%Z
  end.

Definition sqrtOver (c : Z) (n : Z) : A := ssqrt (sdiv (cst c 0) (sofnat (Z.to_nat n))).

(* Init(shape): value and number of draws consumed from the global source *)
Definition init_value (s : initSpec) (shape : list Z) (pos : nat) : res T :=
  match s with
  | IFull v => v_full shape (dcst (match v with Some d => d | None => dFull end))
  | IUniform lu =>
      let '(l, u) := match lu with Some p => p | None => (dUniL, dUniU) end in
      v_randu shape (dcst l) (dcst u) (dec_lt l u) pos
  | INormal ms =>
      let '(m, sd) := match ms with Some p => p | None => (dNorM, dNorS) end in
      v_randn shape (dcst m) (dcst sd) (dec_pos sd) pos
  | IHeUniform (Some f) =>
      let r := sqrtOver 6 f in v_randu shape (ssub (cst 0 0) r) r true pos
  | IHeNormal (Some f) => v_randn shape (cst 0 0) (sqrtOver 2 f) true pos
  | IXavierUniform (Some (fi, fo)) =>
      let r := sqrtOver 6 (fi + fo) in v_randu shape (ssub (cst 0 0) r) r true pos
  | IXavierNormal (Some (fi, fo)) => v_randn shape (cst 0 0) (sqrtOver 2 (fi + fo)) true pos
  | _ => Err
  end.

Definition init_is_random (s : initSpec) : bool := match s with IFull _ => false | _ => true end.

(* initializers return tensors with GradTrack: true *)
Definition init_run (h : heap) (s : initSpec) (shape : list Z) (pos : nat) (name : option nat) : heap * res nat * nat :=
  if negb (init_valid s) then (h, Err, pos) else
  match init_value s shape pos with
  | Ok v => let '(h', id) := leaf h v true name in
            (h', Ok id, if init_is_random s then pos + prodn (dims v) else pos)
  | Err => (h, Err, pos)
  | Panic => (h, Panic, pos)
  end.

(* NewFC: [None] initializer = key absent (default), [Some None] = key present with nil value *)
Definition fc_new (h : heap) (inputs outputs : Z) (wi bi : option (option initSpec)) (pos : nat)
  : heap * res (nat * nat) * nat :=
  if (inputs <=? 0)%Z || (outputs <=? 0)%Z then (h, Err, pos) else
  match wi, bi with
  | Some None, _ => (h, Err, pos)
  | _, Some None => (h, Err, pos)
  | _, _ =>
      let ws := match wi with Some (Some s) => s | _ => IXavierUniform (Some (inputs, outputs)) end in
      let bs := match bi with Some (Some s) => s | _ => IFull (Some (0%Z, 0%Z)) end in
      match init_run h ws [outputs] pos None with
      | (h1, Ok w, pos1) =>
          match init_run h1 bs [outputs] pos1 None with
          | (h2, Ok b, pos2) => (h2, Ok (w, b), pos2)
          | (_, Err, _) => (h, Err, pos)       (* draws of a failed construction: see note in Scenario *)
          | (_, Panic, _) => (h, Panic, pos)
          end
      | (_, Err, _) => (h, Err, pos)
      | (_, Panic, _) => (h, Panic, pos)
      end
  end.

End Components.
