(* Valid.v — tensor/internal/validator/*.go and tensor/validators.go, over Go ints (Z).
   [true] = the validator returns nil.  Error texts are not modelled.  Definitions only. *)
From Coq Require Import List Arith ZArith Bool.
From Qeep Require Import Model.Nd.
Import ListNotations.
Local Open Scope Z_scope.

Definition zrange := (Z * Z)%type.

Definition zlen {T} (l : list T) : Z := Z.of_nat (length l).

(* accessors.go *)
Fixpoint atIndexOk (index dims : list Z) : bool :=
  match index, dims with
  | [], [] => true
  | i :: index', d :: dims' => (0 <=? i) && (i <? d) && atIndexOk index' dims'
  | _, _ => false
  end.
Definition validateAtIndexAgainstDims (index dims : list Z) : bool :=
  (length index =? length dims)%nat && atIndexOk index dims.

Fixpoint sliceRangesOk (index : list zrange) (dims : list Z) : bool :=
  match index, dims with
  | [], _ => true
  | (f, t) :: index', d :: dims' =>
      (if (f =? 0) && (t =? 0) then true
       else negb (f >=? t) && negb ((f <? 0) || (f >=? d) || (t <? 1) || (t >=? d + 1)))
      && sliceRangesOk index' dims'
  | _ :: _, [] => false
  end.
Definition validateSliceIndexAgainstDims (index : list zrange) (dims : list Z) : bool :=
  (length index <=? length dims)%nat && sliceRangesOk index dims.

Fixpoint srcFits (src dst : list Z) : bool :=
  match src, dst with
  | [], _ => true
  | s :: src', d :: dst' => negb (s >? d) && srcFits src' dst'
  | _ :: _, [] => false
  end.
Fixpoint coversSrc (index : list zrange) (src : list Z) : bool :=
  match index, src with
  | [], _ => true
  | (f, t) :: index', s :: src' =>
      (if (f =? 0) && (t =? 0) then true else (t - f =? s)) && coversSrc index' src'
  | _ :: _, [] => false
  end.
Definition validatePatchIndexAgainstDims (index : list zrange) (src dst : list Z) : bool :=
  (length src =? length dst)%nat && srcFits src dst
  && validateSliceIndexAgainstDims index dst && coversSrc index src.

(* initializers.go *)
Definition validateInputDims (dims : list Z) : bool := forallb (fun d => negb (d <=? 0)) dims.

(* ValidateInputDataDimUnity (after fix F6): data of static depth 0..4; at every level: non-empty,
   every sibling valid, every sibling as long as the first, and — F6 — the inner lengths of
   every sibling equal to those of the first sibling *)
Section DataUnity.
Variable A : Type.
Fixpoint firstLens (x : nd A) : list nat :=
  match x with
  | Sc _ => []
  | Vec l => length l :: match l with [] => [] | y :: _ => firstLens y end
  end.
Definition list_eqb (a b : list nat) : bool :=
  (length a =? length b)%nat && forallb (fun p => (fst p =? snd p)%nat) (combine a b).
Fixpoint dataUnity (x : nd A) : bool :=
  match x with
  | Sc _ => true
  | Vec l =>
      negb (length l =? 0)%nat
      && (fix go (rows : list (nd A)) : bool :=
            match rows with
            | [] => true
            | sub :: rest =>
                dataUnity sub
                && list_eqb (firstLens sub) (match l with [] => [] | y :: _ => firstLens y end)
                && go rest
            end) l
  end.
End DataUnity.
Arguments dataUnity {A} x.
Arguments firstLens {A} x.

Fixpoint concatDimsOk (base : list Z) (dim : Z) (tsDims : list (list Z)) : bool :=
  match tsDims with
  | [] => true
  | ds :: rest =>
      negb (length ds =? 0)%nat
      && (length ds =? length base)%nat
      && ((0 <=? dim) && (dim <? zlen base))
      && forallb (fun p : Z * (Z * Z) => let '(j, (d, b)) := p in (j =? dim) || (d =? b))
                 (combine (map Z.of_nat (seq 0 (length ds))) (combine ds base))
      && concatDimsOk base dim rest
  end.
Definition validateConcatTensorsDimsAlongDim (tsDims : list (list Z)) (dim : Z) : option bool :=
  match tsDims with
  | [] => None                      (* tsDims[0] panics; excluded by validateTensorsDeviceUnity *)
  | base :: _ => Some (concatDimsOk base dim tsDims)
  end.

(* operators.go *)
Fixpoint dimsEq (d1 d2 : list Z) : bool :=
  match d1, d2 with
  | [], [] => true
  | a :: r1, b :: r2 => (a =? b) && dimsEq r1 r2
  | _, _ => false
  end.
Definition validateBinaryFuncDimsMatch (d1 d2 : list Z) : bool := dimsEq d1 d2.

Definition validateDotProductDims (d1 d2 : list Z) : bool :=
  match rev d1, rev d2 with
  | a :: _, b :: _ => a =? b
  | _, _ => false
  end.

Definition validateMatMulDims (d1 d2 : list Z) : bool :=
  match rev d1, rev d2 with
  | a :: _ :: _, _ :: b :: _ => a =? b
  | _, _ => false
  end.

(* reducers.go / shape_modifiers.go *)
Definition validateReducedDimAgainstDims (dim : Z) (dims : list Z) : bool :=
  (0 <=? dim) && (dim <? zlen dims).
Definition validateTransposeDims (dims : list Z) : bool := (2 <=? length dims)%nat.
Definition dimsToNumElems (dims : list Z) : Z := fold_left Z.mul dims 1.
Definition validateReshape (src dst : list Z) : bool := dimsToNumElems dst =? dimsToNumElems src.
Definition validateUnSqueezeDim (dim : Z) (dims : list Z) : bool := (0 <=? dim) && (dim <=? zlen dims).
Definition validateSqueezeDim (dim : Z) (dims : list Z) : bool :=
  (0 <=? dim) && (dim <? zlen dims) &&
  match nth_error dims (Z.to_nat dim) with Some d => d =? 1 | None => false end.
Definition validateFlattenDim (dim : Z) (dims : list Z) : bool := (0 <=? dim) && (dim <? zlen dims).

Fixpoint bcastOkRev (rsrc rdst : list Z) : bool :=
  match rsrc, rdst with
  | [], _ => true
  | s :: rsrc', d :: rdst' => ((s =? d) || (s =? 1)) && bcastOkRev rsrc' rdst'
  | _ :: _, [] => false
  end.
Definition validateBroadcast (src dst : list Z) : bool :=
  (length src <=? length dst)%nat && bcastOkRev (rev src) (rev dst).
