(* RandExt.v — the meaning of the oracle calls made by the translated random-tensor wrappers
   (w_uniformRandomTensor, w_normalRandomTensor of Model/GoWrap.v).  The state is the position [pos] in the stream of
   raw draws of the global source ([srnd false k] = the k-th Float64(), [srnd true k] = the k-th NormFloat64()).
   * the function literal handed to initWith is the handle [DL [DI 8; l; u]] resp. [DL [DI 9; u; s]] (the translator
     passes the literal's free variables in alphabetical order: [l; u] resp. [s; u]);
   * [initWith] is [Fill.fill] of the model's generator for that handle from the current position, value AND final
     generator state — exactly what Proofs/DataFillP.v proves of the translated initWith for ANY generator
     ([data_initWith_run]); that this means "element k of the row-major order is draw pos+k and the position advances
     by the number of elements" is a theorem (Proofs/DataRandP.v), not part of this definition.
   gonum's distuv.Uniform{Min,Max}.Rand() = Float64()*(Max-Min)+Min and Normal{Mu,Sigma}.Rand() = NormFloat64()*Sigma+Mu
   are the modelled library behaviour ([uniformGen], [normalGen] of Model/Data.v).  Definitions only. *)
From Coq Require Import String List ZArith Bool Arith.
From Qeep Require Import Model.Scalar Model.Nd Model.Fill Model.Data Model.DataIR Model.HeapExt Model.DataExt.
Import ListNotations.
Local Open Scope string_scope.

Section RandExt.
Context {A : Type} {SA : Scalar A}.
Notation dval := (@dval A).

Definition rext (f : string) (args : list dval) (pos : nat) : option (list dval * nat) :=
  if f =? "func() any { return distuv.Uniform{Min: l, Max: u}.Rand() }" then
    match args with [DF l; DF u] => Some ([DL [DI 8%Z; DF l; DF u]], pos) | _ => None end
  else if f =? "func() any { return distuv.Normal{Mu: u, Sigma: s}.Rand() }" then
    match args with [DF s; DF u] => Some ([DL [DI 9%Z; DF u; DF s]], pos) | _ => None end
  else if f =? "initWith" then
    match args with
    | [dsv; DL [DI 8%Z; DF l; DF u]] =>
        do ds <- unnatsV dsv; do r <- fill ds (uniformGen l u) pos; Some ([emb (fst r)], snd r)
    | [dsv; DL [DI 9%Z; DF u; DF s]] =>
        do ds <- unnatsV dsv; do r <- fill ds (normalGen u s) pos; Some ([emb (fst r)], snd r)
    | _ => None
    end
  else None.

End RandExt.
