(* ChainIR.v — the target language of the translator harness/chainx and its interpreters.
   The composition layer of qeep (component forward functions, losses, SGD, and the back-edge
   closures of gradtrack/gradients.go) consists of straight-line chains of public Tensor method
   calls.  chainx writes each of them, read from /repo's sources on every run, as a [cfun]
   (Model/Chains.v).  The interpreters below give a chain its meaning with the model's OWN
   operations ([h_*] on the heap for components, [v_*] on values inside back-edge rules); the
   theorems of Proofs/ChainP.v state that the meaning of every generated chain IS the model's
   definition of that component / rule, for all heaps and arguments.
   Everything that is not a tensor (scalars, dimensions, shapes, index ranges, validation calls)
   is carried as canonical source text and resolved by a [resolver] that the theorem supplies:
   text the resolver does not know makes the interpretation [Panic], so an edited expression
   cannot be silently accepted.  Definitions only. *)
From Coq Require Import String List ZArith Bool Arith.
From Qeep Require Import Model.Scalar Model.Nd Model.Fill Model.Data Model.Valid Model.Api Model.Grad Model.Components.
Import ListNotations.
Set Implicit Arguments.

Inductive carg :=
| AV (v : string)            (* tensor variable *)
| AZ (z : Z)                 (* integer literal *)
| AD (m e : Z)               (* decimal literal m * 10^e *)
| AX (t : string).           (* any other expression, canonical text *)

Inductive cstmt :=
| SCall (dst recv meth : string) (args : list carg) (haserr checked : bool)
| SCopy (dst src : string)
| SLet (dst text : string)
| SGuard (text : string) (checked : bool)
| SBind (dsts : list string) (text : string) (checked : bool)
| SIf (cond : string) (n : nat)        (* if cond { the next n statements, ending in a return } *)
| SRet (v : string)
| SOther (text : string).

Record cfun := mkCfun { cf_params : list string; cf_body : list cstmt }.

Definition lets := list (string * string).
Fixpoint lookupS {X} (l : list (string * X)) (k : string) : option X :=
  match l with
  | [] => None
  | (k', x) :: r => if String.eqb k k' then Some x else lookupS r k
  end.

Section Interp.
Variables (V St : Type).

(* an evaluated argument *)
Inductive aval := VT (v : V) | VZ (z : Z) | VD (m e : Z) | VX (t : string).

(* what the theorem supplies *)
Record hooks := mkHooks {
  (* one call: state, let-bindings in scope, method / function name, receiver (name, value if bound),
     arguments, is this the call whose result is returned *)
  hk_call : St -> lets -> string -> string -> option V -> list aval -> bool -> St * res V;
  hk_guard : St -> string -> option bool;               (* validation call: Some true = passes, Some false = error *)
  hk_bind : St -> string -> option (option (list V));    (* helper returning several tensors *)
  hk_cond : St -> lets -> string -> option bool          (* condition of an if *)
}.
Variable hk : hooks.

Definition env := list (string * V).

Definition evalArg (e : env) (a : carg) : option aval :=
  match a with
  | AV v => match lookupS e v with Some x => Some (VT x) | None => None end
  | AZ z => Some (VZ z)
  | AD m x => Some (VD m x)
  | AX t => Some (VX t)
  end.

Fixpoint evalArgs (e : env) (l : list carg) : option (list aval) :=
  match l with
  | [] => Some []
  | a :: r => match evalArg e a, evalArgs e r with Some x, Some xs => Some (x :: xs) | _, _ => None end
  end.

(* is the statement list after a call just "return that variable" *)
Definition returnsNow (dst : string) (rest : list cstmt) : bool :=
  match rest with
  | SRet v :: _ => String.eqb v dst
  | _ => false
  end.

Fixpoint bindAll (e : env) (ds : list string) (vs : list V) : option env :=
  match ds, vs with
  | [], [] => Some e
  | d :: ds', v :: vs' => bindAll ((d, v) :: e) ds' vs'
  | _, _ => None
  end.

(* result: the state and the returned tensor ([None] = the function returns no tensor) *)
Fixpoint run (fuel : nat) (s : St) (e : env) (ls : lets) (body : list cstmt) : St * res (option V) :=
  match fuel with
  | O => (s, Panic)
  | S fuel' =>
      match body with
      | [] => (s, Panic)                                   (* fell off the end: not a function we understand *)
      | SRet v :: _ =>
          if String.eqb v "" then (s, Ok None)
          else match lookupS e v with Some x => (s, Ok (Some x)) | None => (s, Panic) end
      | SCall dst recv meth args haserr checked :: rest =>
          if haserr && negb checked then (s, Panic) else      (* an ignored error: not the chain the model describes *)
          match evalArgs e args with
          | None => (s, Panic)
          | Some avs =>
              match hk_call hk s ls meth recv (lookupS e recv) avs (returnsNow dst rest) with
              | (s', Ok v) => run fuel' s' ((dst, v) :: e) ls rest
              | (s', Err) => (s', Err)
              | (s', Panic) => (s', Panic)
              end
          end
      | SCopy dst src :: rest =>
          match lookupS e src with
          | Some x => run fuel' s ((dst, x) :: e) ls rest
          | None => (s, Panic)
          end
      | SLet dst text :: rest => run fuel' s e ((dst, text) :: ls) rest
      | SGuard text checked :: rest =>
          if negb checked then (s, Panic) else
          match hk_guard hk s text with
          | Some true => run fuel' s e ls rest
          | Some false => (s, Err)
          | None => (s, Panic)
          end
      | SBind ds text checked :: rest =>
          if negb checked then (s, Panic) else
          match hk_bind hk s text with
          | Some (Some vs) => match bindAll e ds vs with Some e' => run fuel' s e' ls rest | None => (s, Panic) end
          | Some None => (s, Err)
          | None => (s, Panic)
          end
      | SIf c n :: rest =>
          match hk_cond hk s ls c with
          | Some true => run fuel' s e ls (firstn n rest)
          | Some false => run fuel' s e ls (skipn n rest)
          | None => (s, Panic)
          end
      | SOther _ :: _ => (s, Panic)
      end
  end.

(* the tensor parameters are bound by the caller; non-tensor parameters are resolved by text *)
Definition runFun (f : cfun) (s : St) (e : env) : St * res (option V) :=
  run (S (length (cf_body f))) s e [] (cf_body f).

End Interp.
Arguments VT {V} v.
Arguments VZ {V} z.
Arguments VD {V} m e.
Arguments VX {V} t.

(* ------------------------------------------------------------------------------------------- *)
(* literal scalars / integers *)
Section Lit.
Context {A : Type} {SA : Scalar A}.
Variables (V : Type).

Definition litScalar (xs : lets -> string -> option A) (ls : lets) (a : aval V) : option A :=
  match a with
  | VZ z => Some (sconst z 0)
  | VD m e => Some (sconst m e)
  | VX t => xs ls t
  | VT _ => None
  end.
Definition litZero (a : aval V) : option bool :=
  match a with
  | VZ z => Some (z =? 0)%Z
  | VD m _ => Some (m =? 0)%Z
  | _ => None
  end.
Definition litInt (xi : lets -> string -> option Z) (ls : lets) (a : aval V) : option Z :=
  match a with
  | VZ z => Some z
  | VX t => xi ls t
  | _ => None
  end.
End Lit.

(* ------------------------------------------------------------------------------------------- *)
(* heap level: the tracked public methods *)
Section Heap.
Context {A : Type} {SA : Scalar A}.
Notation T := (tensor A).
Notation heap := (@heap A).
Notation hres := (@hres A).

Record hres_resolver := mkHR {
  hr_scalar : lets -> string -> option A;
  hr_int : lets -> string -> option Z
}.
Variable rs : hres_resolver.
(* user functions (clip): name -> heap -> evaluated arguments -> result name -> outcome *)
Variable userf : string -> option (heap -> list (aval nat) -> option nat -> hres).
Variable name : option nat.       (* the caller-visible name: given to the returned tensor only *)

Definition mathOf (m : string) : option mathfn :=
  if String.eqb m "Exp" then Some FExp else if String.eqb m "Log" then Some FLog else
  if String.eqb m "Sin" then Some FSin else if String.eqb m "Cos" then Some FCos else
  if String.eqb m "Tan" then Some FTan else if String.eqb m "Sinh" then Some FSinh else
  if String.eqb m "Cosh" then Some FCosh else if String.eqb m "Tanh" then Some FTanh else None.
Definition arithOf (m : string) : option binary :=
  if String.eqb m "Add" then Some BiAdd else if String.eqb m "Sub" then Some BiSub else
  if String.eqb m "Mul" then Some BiMul else if String.eqb m "Div" then Some BiDiv else None.
Definition elselOf (m : string) : option binary :=
  if String.eqb m "ElMax" then Some BiElMax else if String.eqb m "ElMin" then Some BiElMin else None.
Definition cmpOf (m : string) : option binary :=
  if String.eqb m "Eq" then Some BiEq else if String.eqb m "Ne" then Some BiNe else
  if String.eqb m "Gt" then Some BiGt else if String.eqb m "Ge" then Some BiGe else
  if String.eqb m "Lt" then Some BiLt else if String.eqb m "Le" then Some BiLe else None.
Definition alongOf (m : string) : option reducer :=
  if String.eqb m "SumAlong" then Some RdSum else if String.eqb m "MaxAlong" then Some RdMax else
  if String.eqb m "MinAlong" then Some RdMin else if String.eqb m "AvgAlong" then Some RdAvg else
  if String.eqb m "VarAlong" then Some RdVar else if String.eqb m "StdAlong" then Some RdStd else
  if String.eqb m "MeanAlong" then Some RdMean else None.

Definition call_h (h : heap) (ls : lets) (meth recv : string) (rv : option nat) (args : list (aval nat)) (final : bool) : hres :=
  let nm := if final then name else None in
  match rv with
  | None =>
      if String.eqb recv "" then
        match userf meth with
        | Some f => f h args nm
        | None => (h, Panic)
        end
      else (h, Panic)
  | Some x =>
      match args with
      | [] =>
          match mathOf meth with
          | Some f => h_math h f x nm
          | None => if String.eqb meth "Transpose" then h_transpose h x nm else (h, Panic)
          end
      | [a] =>
          if String.eqb meth "Scale" then
            match litScalar (hr_scalar rs) ls a with Some c => h_scale h x c nm | None => (h, Panic) end
          else if String.eqb meth "Pow" then
            match litScalar (hr_scalar rs) ls a, litZero a with
            | Some c, Some z => h_pow h x c z nm
            | _, _ => (h, Panic)
            end
          else
          match arithOf meth, elselOf meth, cmpOf meth, alongOf meth, a with
          | Some b, _, _, _, VT u => h_arith h b x u nm
          | _, Some b, _, _, VT u => h_elsel h b x u nm
          | _, _, Some b, _, VT u => h_cmp h b x u nm
          | _, _, _, Some r, _ =>
              match litInt (hr_int rs) ls a with Some d => h_reduceAlong h r x d nm | None => (h, Panic) end
          | _, _, _, _, _ =>
              if String.eqb meth "MatMul" then match a with VT u => h_matmul h x u nm | _ => (h, Panic) end
              else if String.eqb meth "Dot" then match a with VT u => h_dot h x u nm | _ => (h, Panic) end
              else if String.eqb meth "UnSqueeze" then
                match litInt (hr_int rs) ls a with Some d => h_unsqueeze h x d nm | None => (h, Panic) end
              else if String.eqb meth "Squeeze" then
                match litInt (hr_int rs) ls a with Some d => h_squeeze h x d nm | None => (h, Panic) end
              else if String.eqb meth "Flatten" then
                match litInt (hr_int rs) ls a with Some d => h_flatten h x d nm | None => (h, Panic) end
              else (h, Panic)
          end
      | _ => (h, Panic)
      end
  end.

End Heap.

(* ------------------------------------------------------------------------------------------- *)
(* value level: inside a back-edge closure every call is a pure value computation (gradient-time
   tensors are spent and untracked; stated abstraction of Model/Grad.v) *)
Section Value.
Context {A : Type} {SA : Scalar A}.
Notation T := (tensor A).

Record vresolver := mkVR {
  vr_scalar : lets -> string -> option A;
  vr_int : lets -> string -> option Z;
  vr_ints : lets -> string -> option (list Z);
  vr_ranges : lets -> string -> option (list zrange);
  vr_grad : string -> option T             (* <var>.Gradient() of a captured tensor *)
}.
Variable rs : vresolver.
Variable userf : string -> option (list (aval T) -> res T).

Definition unit_res (r : res T) : unit * res T := (tt, r).

Definition call_v (_ : unit) (ls : lets) (meth recv : string) (rv : option T) (args : list (aval T)) (final : bool) : unit * res T :=
  unit_res
  (if String.eqb meth "Gradient" then
     match args with
     | [] => match vr_grad rs recv with Some g => Ok g | None => Panic end
     | _ => Panic
     end
   else
   match rv with
   | None =>
       if String.eqb recv "" then match userf meth with Some f => f args | None => Panic end else Panic
   | Some x =>
       match args with
       | [] =>
           match mathOf meth with
           | Some f => v_unary (mathUnary f) x
           | None => if String.eqb meth "Transpose" then v_transpose x else Panic
           end
       | [a] =>
           if String.eqb meth "Scale" then
             match litScalar (vr_scalar rs) ls a with Some c => v_unary (UScale c) x | None => Panic end
           else if String.eqb meth "Pow" then
             match litScalar (vr_scalar rs) ls a with Some c => v_unary (UPow c) x | None => Panic end
           else
           match arithOf meth, cmpOf meth, alongOf meth, a with
           | Some b, _, _, VT u => v_arith b x u
           | _, Some b, _, VT u => v_same b x u
           | _, _, Some r, _ => match litInt (vr_int rs) ls a with Some d => v_reduceAlong r x d | None => Panic end
           | _, _, _, _ =>
               if String.eqb meth "MatMul" then match a with VT u => v_matmul x u | _ => Panic end
               else if String.eqb meth "UnSqueeze" then
                 match litInt (vr_int rs) ls a with Some d => v_unsqueeze x d | None => Panic end
               else if String.eqb meth "Reshape" then
                 match a with VX t => match vr_ints rs ls t with Some sh => v_reshape x sh | None => Panic end | _ => Panic end
               else if String.eqb meth "Broadcast" then
                 match a with VX t => match vr_ints rs ls t with Some sh => v_broadcast x sh | None => Panic end | _ => Panic end
               else if String.eqb meth "Slice" then
                 match a with VX t => match vr_ranges rs ls t with Some ix => v_slice x ix | None => Panic end | _ => Panic end
               else Panic
           end
       | [a; b] =>
           if String.eqb meth "Patch" then
             match a, b with
             | VX t, VT p => match vr_ranges rs ls t with Some ix => v_patch x ix p | None => Panic end
             | _, _ => Panic
             end
           else Panic
       | _ => Panic
       end
   end).

End Value.

(* ------------------------------------------------------------------------------------------- *)
(* scalar kernels of the data layer: the function literals operators.go hands to the element-wise
   traversals, the fold functions / identities / formulas of reducers.go *)
Inductive sx :=
| XV (v : string) | XZ (z : Z) | XD (m e : Z) | XNeg (a : sx)
| XBin (op : string) (a b : sx) | XCmp (op : string) (a b : sx)
| XCall0 (f : string) | XCall1 (f : string) (a : sx) | XCall2 (f : string) (a b : sx)
| XFunRef (k : string) | XLet (v : string) (e body : sx) | XIf (c t e : sx)
| XTrav (f : string) (args : list string) (k : string)
| XOther (t : string).

Record kfun := mkKfun { kf_params : list string; kf_body : sx; kf_lits : list (string * (list string * sx)) }.

Fixpoint sx_eqb (a b : sx) : bool :=
  match a, b with
  | XV x, XV y => String.eqb x y
  | XZ x, XZ y => (x =? y)%Z
  | XD m e, XD m' e' => (m =? m')%Z && (e =? e')%Z
  | XNeg x, XNeg y => sx_eqb x y
  | XBin o x y, XBin o' x' y' => String.eqb o o' && sx_eqb x x' && sx_eqb y y'
  | XCmp o x y, XCmp o' x' y' => String.eqb o o' && sx_eqb x x' && sx_eqb y y'
  | XCall0 f, XCall0 g => String.eqb f g
  | XCall1 f x, XCall1 g y => String.eqb f g && sx_eqb x y
  | XCall2 f x y, XCall2 g x' y' => String.eqb f g && sx_eqb x x' && sx_eqb y y'
  | XFunRef k, XFunRef k' => String.eqb k k'
  | _, _ => false
  end.

Section Kernel.
Context {A : Type} {SA : Scalar A}.
Notation T := (tensor A).

Definition isLit (z : Z) (e : sx) : bool :=
  match e with XZ x => (x =? z)%Z | XD m x => (m =? z)%Z && (x =? 0)%Z | _ => false end.
Definition litOf (m e : Z) : A :=
  if (m =? 0)%Z then s0 else if (m =? 1)%Z && (e =? 0)%Z then s1 else sconst m e.

(* a pure scalar expression over named scalars *)
Fixpoint evx (env : list (string * A)) (e : sx) : option A :=
  match e with
  | XV v => lookupS env v
  | XZ z => Some (litOf z 0)
  | XD m x => Some (litOf m x)
  | XBin op a b =>
      match evx env a, evx env b with
      | Some x, Some y =>
          if String.eqb op "+" then Some (sadd x y) else if String.eqb op "-" then Some (ssub x y)
          else if String.eqb op "*" then Some (smul x y) else if String.eqb op "/" then Some (sdiv x y) else None
      | _, _ => None
      end
  | XCall1 f a =>
      if String.eqb f "math.Inf" then
        match a with
        | XNeg z => if isLit 1 z then Some sneginf else None
        | _ => if isLit 1 a then Some sposinf else None
        end
      else
      match evx env a with
      | Some x =>
          if String.eqb f "math.Exp" then Some (sexp x) else if String.eqb f "math.Log" then Some (slog x)
          else if String.eqb f "math.Sin" then Some (ssin x) else if String.eqb f "math.Cos" then Some (scos x)
          else if String.eqb f "math.Tan" then Some (stan x) else if String.eqb f "math.Sinh" then Some (ssinh x)
          else if String.eqb f "math.Cosh" then Some (scosh x) else if String.eqb f "math.Tanh" then Some (stanh x)
          else if String.eqb f "math.Sqrt" then Some (ssqrt x) else None
      | None => None
      end
  | XCall2 f a b =>
      match evx env a, evx env b with
      | Some x, Some y =>
          if String.eqb f "math.Pow" then Some (spow x y) else if String.eqb f "math.Max" then Some (smax x y)
          else if String.eqb f "math.Min" then Some (smin x y) else None
      | _, _ => None
      end
  | XIf (XCmp op l r) t f =>
      (* |a-b| <= threshold ? 1 : 0   and its negation *)
      match l, r with
      | XCall1 fa (XBin om a b), XV thr =>
          if String.eqb fa "math.Abs" && String.eqb om "-" && String.eqb thr "float64EqualityThreshold" && String.eqb op "<=" then
            match evx env a, evx env b with
            | Some x, Some y =>
                if isLit 1 t && isLit 0 f then Some (seqt x y)
                else if isLit 0 t && isLit 1 f then Some (snet x y) else None
            | _, _ => None
            end
          else None
      | _, _ =>
          match evx env l, evx env r with
          | Some x, Some y =>
              if isLit 1 t && isLit 0 f then
                (if String.eqb op ">" then Some (sgt x y) else if String.eqb op ">=" then Some (sge x y)
                 else if String.eqb op "<" then Some (slt x y) else if String.eqb op "<=" then Some (sle x y) else None)
              else if sx_eqb t l && sx_eqb f r then
                (if String.eqb op ">" then Some (sselgt x y) else if String.eqb op "<" then Some (ssellt x y) else None)
              else None
          | _, _ => None
          end
      end
  | _ => None
  end.

(* a two-argument function literal as a total function (an uninterpretable body gives a function
   that is not the model's, so the theorem about it cannot be proved) *)
Definition kfn2 (k : kfun) (name : string) (env : list (string * A)) : option (A -> A -> A) :=
  match lookupS (kf_lits k) name with
  | Some ([p1; p2], body) =>
      Some (fun a b => match evx ((p1, a) :: (p2, b) :: env) body with Some v => v | None => s0 end)
  | _ => None
  end.
Definition kfn2_total (k : kfun) (name : string) (env : list (string * A)) : Prop :=
  match lookupS (kf_lits k) name with
  | Some ([p1; p2], body) => forall a b, evx ((p1, a) :: (p2, b) :: env) body <> None
  | _ => False
  end.

(* the reducer methods: expressions over the receiver tensor t *)
Definition isNumElems (e : sx) : bool :=
  match e with XCall1 f (XCall0 g) => String.eqb f "float64" && String.eqb g "t.numElems" | _ => false end.

Fixpoint evr (fuel : nat) (k : kfun) (t : T) (env : list (string * A)) (senv : list (string * sx)) (e : sx) : option A :=
  match fuel with
  | O => None
  | S fuel' =>
  match e with
  | XLet v d body =>
      match evr fuel' k t env senv d with
      | Some x => evr fuel' k t ((v, x) :: env) ((v, d) :: senv) body
      | None => None
      end
  | XCall0 f =>
      if String.eqb f "t.sum" then r_sum t else if String.eqb f "t.avg" then r_avg t
      else if String.eqb f "t.mean" then r_mean t else if String.eqb f "t._var" then r_var t else None
  | XCall1 f a =>
      if isNumElems e then Some (sofnat (numElems t))
      else if String.eqb f "math.Sqrt" then match evr fuel' k t env senv a with Some x => Some (ssqrt x) | None => None end
      else None
  | XCall2 f (XFunRef name) ident =>
      if String.eqb f "t.reduceByAssociativeFunc" then
        match kfn2 k name env, evx env ident with
        | Some af, Some i => reduceBy af i t
        | _, _ => None
        end
      else None
  | XBin op a b =>
      match evr fuel' k t env senv a, evr fuel' k t env senv b with
      | Some x, Some y =>
          if String.eqb op "/" then Some (sdiv x y) else if String.eqb op "-" then Some (ssub x y)
          else if String.eqb op "+" then Some (sadd x y) else if String.eqb op "*" then Some (smul x y) else None
      | _, _ => None
      end
  | XIf (XCmp op (XV n) one) th el =>
      (* if n > 1 {...} else {...}  with  n := float64(t.numElems()) *)
      match lookupS senv n with
      | Some d =>
          if isNumElems d && String.eqb op ">" && isLit 1 one
          then if (1 <? numElems t)%nat then evr fuel' k t env senv th else evr fuel' k t env senv el
          else None
      | None => None
      end
  | XV _ | XZ _ | XD _ _ => evx env e
  | _ => None
  end
  end.

End Kernel.
