(* Scenario.v — histories of public API calls and their observables.  One command = one call
   of the public API (or of a component entry point); every command reserves one name (its
   position in the history) for the object it may create.  [run] is what every
   history-quantified property is a theorem about, and what the correspondence check executes
   against the real library.  Definitions only. *)
From Coq Require Import List Arith ZArith Bool.
From Qeep Require Import Model.Scalar Model.Nd Model.Fill Model.Data Model.Valid Model.Api
     Model.Grad Model.Backprop Model.Components.
Import ListNotations.
Set Implicit Arguments.

(* *tensor.Config: nil, or (Device, GradTrack) *)
Definition cfg := option (Z * bool).
Definition cfg_ok (c : cfg) : bool := match c with None => true | Some (d, _) => (d =? 1)%Z end.
Definition cfg_track (c : cfg) : bool := match c with None => false | Some (_, t) => t end.

Inductive ctorKind := KFull | KZeros | KOnes.
Inductive actKind := AkRelu | AkSigmoid | AkTanh | AkLeaky (m : option dec) | AkSoftmax (d : option Z).
Inductive lossKind := LkMSE | LkBCE | LkCE.
Inductive cellRef := CrFCW (fc : nat) | CrFCB (fc : nat) | CrCell (c : nat) | CrNilPtr.

Section Scenario.
Context {A : Type} {SA : Scalar A}.
Notation T := (tensor A).
Notation heap := (@heap A).

Inductive cmd :=
| CLeaf (ds : list nat) (vals : list A) (tracked : bool)      (* a fresh tensor holding the given values *)
| CCtor (k : ctorKind) (ds : list Z) (v : dec) (c : cfg)
| CEye (n : Z) (c : cfg)
| CRandU (ds : list Z) (l u : dec) (c : cfg)
| CRandN (ds : list Z) (m s : dec) (c : cfg)
| CTensorOf (x : nd A) (c : cfg)
| CScale (t : nat) (a : dec)
| CPow (t : nat) (a : dec)
| CMath (f : mathfn) (t : nat)
| CBin (b : binary) (t : nat) (u : targ)
| CEquals (t : nat) (u : targ)
| CDot (t : nat) (u : targ)
| CMatMul (t : nat) (u : targ)
| CTranspose (t : nat)
| CReshape (t : nat) (shape : list Z)
| CBroadcast (t : nat) (shape : list Z)
| CUnsqueeze (t : nat) (dim : Z)
| CSqueeze (t : nat) (dim : Z)
| CFlatten (t : nat) (dim : Z)
| CAlong (r : reducer) (t : nat) (dim : Z)
| CReduce (r : reducer) (t : nat)
| CAt (t : nat) (index : list Z)
| CSlice (t : nat) (index : list zrange)
| CPatch (t : nat) (index : list zrange) (u : targ)
| CConcat (ts : list targ) (dim : Z)
| CNElems (t : nat)
| CShape (t : nat)
| CBackprop (t : targ)
| CReset (t : nat) (tracked : bool)
| CGradOf (t : nat)
| CFCNew (inputs outputs : Z) (wi bi : option (option initSpec))
| CFCSet (fc : nat) (bias : bool) (t : nat)
| CFCForward (fc : nat) (xs : list targ)
| CInputForward (seed : option targ) (xs : list targ)      (* None = SeedFunc left unset *)
| CAct (k : actKind) (xs : list targ)
| CLoss (k : lossKind) (yp yt : targ)
| CSGDNew (lr : option dec)
| CSGDUpdate (sgd : nat) (cell : cellRef)
| CCellNew (t : targ)
| CAccNew
| CAccumulate (acc : nat) (yp yt : targ)
| CAccResult (acc : nat)
| CInit (s : initSpec) (shape : list Z)
| CNop.                                                       (* caller-side action with no API call *)

Inductive obj :=
| ONone
| OTensor (id : nat)
| OFC (w b : option nat)
| OSGD (lr : A)
| OAcc (a : @accuracy A)
| OCell (t : option nat).

Inductive obs :=
| ObErr | ObPanic | ObOk | ObNil
| ObInt (z : Z)
| ObInts (l : list Z)
| ObScalar (a : A)
| ObBool (a : A)
| ObTensor (ds : list nat) (elems : list A)
| ObGrads (rules : nat) (l : list (nat * option (list nat * list A)))
| ObBad.                                                      (* ill-formed scenario (generator bug) *)

Record state := mkState {
  st_heap : heap;
  st_env : list obj;          (* index = name = command position *)
  st_rng : nat                (* draws consumed from the global source *)
}.

Definition init_state : state := mkState [] [] 0.

Variable rd : bred.
Variable sealv : nat -> T -> T.
Variable sealg : nat -> option nat -> T -> T.   (* command position, node name, gradient *)
(* constants read from the Go source (Consts.v) *)
Variables (c_eps c_one_m_eps : A) (c_leaky c_sgd_lr dFull dUniL dUniU dNorM dNorS : dec) (c_softmax_dim : Z).

Definition lookupT (s : state) (n : nat) : option nat :=
  match nth_error (st_env s) n with Some (OTensor id) => Some id | _ => None end.
(* a possibly-nil tensor argument: None = bad reference, Some None = nil *)
Definition lookupArg (s : state) (a : targ) : option (option nat) :=
  match a with None => Some None | Some n => do id <- lookupT s n; Some (Some id) end.

Definition tensorObs (h : heap) (id : nat) : obs :=
  match valOf h id with Some v => ObTensor (dims v) (flat (data v)) | None => ObBad end.

Definition sealNode (h : heap) (id name : nat) : heap :=
  updNode h id (fun n => mkNode (sealv name (nval n)) (ntracked n) (ndirty n) (ngrad n) (nedges n) (nname n)).

Definition push (s : state) (h : heap) (o : obj) (rng : nat) : state := mkState h (st_env s ++ [o]) rng.

(* finish a tensor-producing command *)
Definition fin (s : state) (r : heap * res nat) : state * obs :=
  let name := length (st_env s) in
  match r with
  | (h, Ok id) => (push s (sealNode h id name) (OTensor id) (st_rng s), tensorObs h id)
  | (_, Err) => (push s (st_heap s) ONone (st_rng s), ObErr)
  | (_, Panic) => (push s (st_heap s) ONone (st_rng s), ObPanic)
  end.
Definition fin_rng (s : state) (r : heap * res nat) (rng : nat) : state * obs :=
  let '(s', o) := fin s r in (mkState (st_heap s') (st_env s') (match snd r with Ok _ => rng | _ => st_rng s end), o).

Definition bad (s : state) : state * obs := (push s (st_heap s) ONone (st_rng s), ObBad).
Definition plain (s : state) (o : obs) : state * obs := (push s (st_heap s) ONone (st_rng s), o).

Definition of_value (s : state) (v : res T) (tracked : bool) : state * obs :=
  let name := length (st_env s) in
  match v with
  | Ok t => fin s (let '(h, id) := leaf (st_heap s) t tracked (Some name) in (h, Ok id))
  | Err => fin s (st_heap s, Err)
  | Panic => fin s (st_heap s, Panic)
  end.

Definition scalarObs (s : state) (r : res A) : state * obs :=
  plain s (match r with Ok a => ObScalar a | Err => ObErr | Panic => ObPanic end).

Definition gradsObs (h : heap) (env : list obj) (log : list (nat * T)) : list (nat * option (list nat * list A)) :=
  flat_map (fun p : nat * obj =>
     match snd p with
     | OTensor id =>
         let g := match find (fun e : nat * T => fst e =? id) log with
                  | Some e => Some (snd e)
                  | None => gradOf h id
                  end in
         [(fst p, match g with Some t => Some (dims t, flat (data t)) | None => None end)]
     | _ => []
     end) (combine (seq 0 (length env)) env).

Definition leakyM (m : option dec) : A := dcst (match m with Some d => d | None => c_leaky end).

Definition setNthObj (l : list obj) (i : nat) (o : obj) : list obj :=
  map (fun p : nat * obj => if fst p =? i then o else snd p) (combine (seq 0 (length l)) l).

Definition step (s : state) (c : cmd) : state * obs :=
  let h := st_heap s in
  let name := length (st_env s) in
  let nm := Some name in
  match c with
  | CLeaf ds vals tracked =>
      (* the harness builds this tensor from valid data; ill-formed leaves are generator bugs *)
      if (length vals =? prodn ds) && forallb (fun d => 0 <? d) ds
      then of_value s (Ok (mkT ds (tab ds (fun idx =>
             nth (fold_left (fun acc p => acc * snd p + fst p) (combine idx ds) 0) vals s0)))) tracked
      else bad s
  | CCtor k ds v c =>
      if negb (cfg_ok c) then plain s ObErr else
      of_value s (v_full ds (match k with KFull => dcst v | KZeros => cst 0 0 | KOnes => cst 1 0 end)) (cfg_track c)
  | CEye n c =>
      if negb (cfg_ok c) then plain s ObErr else of_value s (v_eye n) (cfg_track c)
  | CRandU ds l u c =>
      if negb (cfg_ok c) then plain s ObErr else
      let v := v_randu ds (dcst l) (dcst u) (dec_lt l u) (st_rng s) in
      let '(s', o) := of_value s v (cfg_track c) in
      (mkState (st_heap s') (st_env s') (match v with Ok t => st_rng s + prodn (dims t) | _ => st_rng s end), o)
  | CRandN ds m sd c =>
      if negb (cfg_ok c) then plain s ObErr else
      let v := v_randn ds (dcst m) (dcst sd) (dec_pos sd) (st_rng s) in
      let '(s', o) := of_value s v (cfg_track c) in
      (mkState (st_heap s') (st_env s') (match v with Ok t => st_rng s + prodn (dims t) | _ => st_rng s end), o)
  | CTensorOf x c =>
      if negb (cfg_ok c) then plain s ObErr else of_value s (v_tensorOf x) (cfg_track c)
  | CScale t a => match lookupT s t with Some x => fin s (h_scale h x (dcst a) nm) | None => bad s end
  | CPow t a => match lookupT s t with Some x => fin s (h_pow h x (dcst a) (dec_zero a) nm) | None => bad s end
  | CMath f t => match lookupT s t with Some x => fin s (h_math h f x nm) | None => bad s end
  | CBin b t u =>
      match lookupT s t, lookupArg s u with
      | Some x, Some (Some y) =>
          match b with
          | BiEq | BiNe | BiGt | BiGe | BiLt | BiLe => fin s (h_cmp h b x y nm)
          | BiElMax | BiElMin => fin s (h_elsel h b x y nm)
          | BiAdd | BiSub | BiMul | BiDiv => fin s (h_arith h b x y nm)
          end
      | Some _, Some None => plain s ObErr        (* assertCPUTensor(nil) *)
      | _, _ => bad s
      end
  | CEquals t u =>
      match lookupT s t, lookupArg s u with
      | Some x, Some (Some y) =>
          match valOf h x, valOf h y with
          | Some xv, Some yv =>
              plain s (match v_equals xv yv with Ok a => ObBool a | Err => ObErr | Panic => ObPanic end)
          | _, _ => bad s
          end
      | Some _, Some None => plain s ObErr
      | _, _ => bad s
      end
  | CDot t u =>
      match lookupT s t, lookupArg s u with
      | Some x, Some (Some y) => fin s (h_dot h x y nm)
      | Some _, Some None => plain s ObErr
      | _, _ => bad s
      end
  | CMatMul t u =>
      match lookupT s t, lookupArg s u with
      | Some x, Some (Some y) => fin s (h_matmul h x y nm)
      | Some _, Some None => plain s ObErr
      | _, _ => bad s
      end
  | CTranspose t => match lookupT s t with Some x => fin s (h_transpose h x nm) | None => bad s end
  | CReshape t shape => match lookupT s t with Some x => fin s (h_reshape h x shape nm) | None => bad s end
  | CBroadcast t shape => match lookupT s t with Some x => fin s (h_broadcast h x shape nm) | None => bad s end
  | CUnsqueeze t d => match lookupT s t with Some x => fin s (h_unsqueeze h x d nm) | None => bad s end
  | CSqueeze t d => match lookupT s t with Some x => fin s (h_squeeze h x d nm) | None => bad s end
  | CFlatten t d => match lookupT s t with Some x => fin s (h_flatten h x d nm) | None => bad s end
  | CAlong r t d => match lookupT s t with Some x => fin s (h_reduceAlong h r x d nm) | None => bad s end
  | CReduce r t =>
      match lookupT s t with
      | Some x => match valOf h x with Some v => scalarObs s (v_reduce r v) | None => bad s end
      | None => bad s
      end
  | CAt t index =>
      match lookupT s t with
      | Some x => match valOf h x with Some v => scalarObs s (v_at v index) | None => bad s end
      | None => bad s
      end
  | CSlice t index => match lookupT s t with Some x => fin s (h_slice h x index nm) | None => bad s end
  | CPatch t index u =>
      match lookupT s t, lookupArg s u with
      | Some x, Some (Some p) => fin s (h_patch h x index p nm)
      | Some _, Some None => plain s ObErr
      | _, _ => bad s
      end
  | CConcat ts d =>
      match mapM (lookupArg s) ts with
      | Some args =>
          if (length args <? 2) then plain s ObErr else
          match mapM (fun a => a) args with
          | Some ids => fin s (h_concat h ids d nm)
          | None => plain s ObErr                 (* a nil tensor in the list *)
          end
      | None => bad s
      end
  | CNElems t =>
      match lookupT s t with
      | Some x => match valOf h x with Some v => plain s (ObInt (Z.of_nat (numElems v))) | None => bad s end
      | None => bad s
      end
  | CShape t =>
      match lookupT s t with
      | Some x => match valOf h x with Some v => plain s (ObInts (zdims v)) | None => bad s end
      | None => bad s
      end
  | CBackprop t =>
      match lookupArg s t with
      | Some None => plain s ObErr
      | Some (Some x) =>
          match bp_topo rd (sealg name) h x with
          | (h', log, Ok _) =>
              (* chain gradient functions evaluated: the seed (tracked root) and one per back edge
                 with a tracked target of every processed context *)
              (push s h' ONone (st_rng s),
               ObGrads (if trackedOf h x
                        then S (length (flat_map (fun e : nat * T =>
                                 filter (fun ed : nat * rule => trackedOf h' (fst ed)) (edgesOf h' (fst e))) log))
                        else 0)
                       (gradsObs h' (st_env s) log))
          | (_, _, Err) => plain s ObErr
          | (_, _, Panic) => plain s ObPanic
          end
      | None => bad s
      end
  | CReset t tracked =>
      match lookupT s t with
      | Some x => (push s (h_reset h x tracked) ONone (st_rng s), ObOk)
      | None => bad s
      end
  | CGradOf t =>
      match lookupT s t with
      | Some x =>
          match gradOf h x with
          | Some g => fin s (let '(h', id) := alloc h g (false, true, []) nm in (h', Ok id))
          | None => plain s ObNil
          end
      | None => bad s
      end
  | CFCNew i o wi bi =>
      match fc_new dFull dUniL dUniU dNorM dNorS h i o wi bi (st_rng s) with
      | (h', Ok (w, b), rng) => (push s h' (OFC (Some w) (Some b)) rng, ObOk)
      | (_, Err, _) => plain s ObErr
      | (_, Panic, _) => plain s ObPanic
      end
  | CFCSet fc bias t =>
      match nth_error (st_env s) fc, lookupT s t with
      | Some (OFC w b), Some x =>
          (mkState h (setNthObj (st_env s) fc (if bias then OFC w (Some x) else OFC (Some x) b) ++ [ONone]) (st_rng s), ObOk)
      | _, _ => bad s
      end
  | CFCForward fc xs =>
      match nth_error (st_env s) fc, mapM (lookupArg s) xs with
      | Some (OFC (Some w) (Some b)), Some args => fin s (fc_forward h w b args nm)
      | _, _ => bad s
      end
  | CInputForward seed xs =>
      match mapM (lookupArg s) xs with
      | Some args =>
          if negb (length args =? 0) then plain s ObErr else
          match seed with
          | None => plain s ObErr                                  (* fix F7 *)
          | Some a =>
              match lookupArg s a with
              | Some (Some x) => (push s h (OTensor x) (st_rng s), tensorObs h x)   (* the seed itself *)
              | Some None => plain s ObNil
              | None => bad s
              end
          end
      | None => bad s
      end
  | CAct k xs =>
      match mapM (lookupArg s) xs with
      | Some args =>
          match k with
          | AkRelu => fin s (relu_forward h args nm)
          | AkSigmoid => fin s (sigmoid_forward h args nm)
          | AkTanh => fin s (tanh_forward h args nm)
          | AkLeaky m => fin s (leaky_forward h (leakyM m) args nm)
          | AkSoftmax d =>
              let dim := match d with Some z => z | None => c_softmax_dim end in
              if (dim <? 0)%Z then plain s ObErr else fin s (softmax_forward h (Z.to_nat dim) args nm)
          end
      | None => bad s
      end
  | CLoss k yp yt =>
      match lookupArg s yp, lookupArg s yt with
      | Some p, Some t =>
          match k with
          | LkMSE => fin s (mse_compute h p t nm)
          | LkBCE => fin s (bce_compute c_eps c_one_m_eps h p t nm)
          | LkCE => fin s (ce_compute c_eps c_one_m_eps h p t nm)
          end
      | _, _ => bad s
      end
  | CSGDNew lr => (push s h (OSGD (dcst (match lr with Some d => d | None => c_sgd_lr end))) (st_rng s), ObOk)
  | CSGDUpdate sgd cell =>
      match nth_error (st_env s) sgd with
      | Some (OSGD lr) =>
          let upd (content : option nat) (store : nat -> list obj) : state * obs :=
            match sgd_update h lr content nm with
            | (h', Ok id) =>
                (mkState (sealNode h' id name) (store id ++ [OTensor id]) (st_rng s), tensorObs h' id)
            | (_, Err) => plain s ObErr
            | (_, Panic) => plain s ObPanic
            end in
          match cell with
          | CrNilPtr => plain s ObErr
          | CrFCW fc =>
              match nth_error (st_env s) fc with
              | Some (OFC w b) => upd w (fun id => setNthObj (st_env s) fc (OFC (Some id) b))
              | _ => bad s
              end
          | CrFCB fc =>
              match nth_error (st_env s) fc with
              | Some (OFC w b) => upd b (fun id => setNthObj (st_env s) fc (OFC w (Some id)))
              | _ => bad s
              end
          | CrCell c =>
              match nth_error (st_env s) c with
              | Some (OCell t) => upd t (fun id => setNthObj (st_env s) c (OCell (Some id)))
              | _ => bad s
              end
          end
      | _ => bad s
      end
  | CCellNew t =>
      match lookupArg s t with
      | Some a => (push s h (OCell a) (st_rng s), ObOk)
      | None => bad s
      end
  | CAccNew => (push s h (OAcc acc_new) (st_rng s), ObOk)
  | CAccumulate acc yp yt =>
      match nth_error (st_env s) acc, lookupArg s yp, lookupArg s yt with
      | Some (OAcc a), Some p, Some t =>
          match acc_accumulate h a p t with
          | (a', Ok _) => (mkState h (setNthObj (st_env s) acc (OAcc a') ++ [ONone]) (st_rng s), ObOk)
          | (_, Err) => plain s ObErr
          | (_, Panic) => plain s ObPanic
          end
      | _, _, _ => bad s
      end
  | CAccResult acc =>
      match nth_error (st_env s) acc with
      | Some (OAcc a) => plain s (ObScalar (acc_result a))
      | _ => bad s
      end
  | CInit sp shape =>
      match init_run dFull dUniL dUniU dNorM dNorS h sp shape (st_rng s) nm with
      | (h', Ok id, rng) => fin_rng s (h', Ok id) rng
      | (_, Err, _) => plain s ObErr
      | (_, Panic, _) => plain s ObPanic
      end
  | CNop => plain s ObOk
  end.

Fixpoint run_from (s : state) (cs : list cmd) : list obs :=
  match cs with
  | [] => []
  | c :: r => let '(s', o) := step s c in o :: run_from s' r
  end.

Definition run (cs : list cmd) : list obs := run_from init_state cs.

End Scenario.
