(* Backprop.v — gradtrack/back_propagation.go.
   [bp_topo] is the algorithm of the repaired code (fix F1): a depth-first search from the root
   over tracked targets marks every reached context dirty and yields the reverse post-order
   (consumers before operands); the root receives the all-ones seed; then every context of the
   order evaluates each of its back edges once and accumulates the result on the target.
   [bp_walk] is the pinned recursive edge walk, kept only for the refutation theorems of C01.
   Definitions only. *)
From Coq Require Import List Arith ZArith Bool.
From Qeep Require Import Model.Scalar Model.Nd Model.Fill Model.Data Model.Valid Model.Api Model.Grad.
Import ListNotations.
Set Implicit Arguments.

Definition memb (n : nat) (l : list nat) : bool := existsb (Nat.eqb n) l.

Section Backprop.
Context {A : Type} {SA : Scalar A}.
Notation T := (tensor A).
Notation heap := (@heap A).
Notation rule := (@rule A).

(* topologicalOrder.visit; state = (visited, order with newest first) *)
Fixpoint dfs (fuel : nat) (h : heap) (n : nat) (st : list nat * list nat) : list nat * list nat :=
  match fuel with
  | O => st
  | S f =>
      if negb (trackedOf h n) || memb n (fst st) then st
      else
        let st2 := fold_left (fun s e => dfs f h (fst e) s) (edgesOf h n) (n :: fst st, snd st) in
        (fst st2, n :: snd st2)
  end.

Definition topoOrder (h : heap) (root : nat) : list nat := snd (dfs (S root) h root ([], [])).

Definition markDirty (h : heap) (l : list nat) : heap :=
  map (fun p : nat * node => if memb (fst p) l
                             then mkNode (nval (snd p)) (ntracked (snd p)) true (ngrad (snd p)) (nedges (snd p)) (nname (snd p))
                             else snd p)
      (combine (seq 0 (length h)) h).

Definition setGrad (h : heap) (i : nat) (g : option T) : heap :=
  updNode h i (fun n => mkNode (nval n) (ntracked n) (ndirty n) g (nedges n) (nname n)).

(* accumulateGrad *)
Definition accumulate (h : heap) (i : nat) (g : T) : heap * res unit :=
  match gradOf h i with
  | None => (setGrad h i (Some g), Ok tt)
  | Some g0 =>
      match v_arith BiAdd g0 g with
      | Ok s => (setGrad h i (Some s), Ok tt)
      | Err => (h, Err)
      | Panic => (h, Panic)
      end
  end.

Section Run.
Variable rd : bred.
(* applied to the finalised gradient of a node before its back edges use it; the identity in
   every theorem, a renaming to observed values in the correspondence run *)
Variable sealg : option nat -> T -> T.

Definition process_edge (c : nat) (st : heap * res unit) (e : nat * rule) : heap * res unit :=
  match st with
  | (h, Ok _) =>
      if trackedOf h (fst e) then
        match eval_rule rd h (snd e) with
        | Ok g => accumulate h (fst e) g
        | Err => (h, Err)
        | Panic => (h, Panic)
        end
      else (h, Ok tt)
  | _ => st
  end.

(* log: finalised gradients (node id, gradient) in processing order *)
Definition process_node (st : heap * list (nat * T) * res unit) (c : nat) : heap * list (nat * T) * res unit :=
  match st with
  | (h, log, Ok _) =>
      match nth_error h c with
      | Some n =>
          match ngrad n with
          | Some g =>
              let h1 := setGrad h c (Some (sealg (nname n) g)) in
              let '(h2, r) := fold_left (process_edge c) (nedges n) (h1, Ok tt) in
              (h2, (c, g) :: log, r)
          | None => (h, log, Ok tt)
          end
      | None => (h, log, Panic)
      end
  | _ => st
  end.

Definition bp_topo (h : heap) (root : nat) : heap * list (nat * T) * res unit :=
  if negb (trackedOf h root) then (h, [], Ok tt) else
  let order := topoOrder h root in
  let h1 := markDirty h order in
  match valOf h1 root with
  | None => (h, [], Panic)
  | Some rv =>
      match toOnes rv with
      | Ok ones =>
          match accumulate h1 root ones with
          | (h2, Ok _) => fold_left process_node order (h2, [], Ok tt)
          | (h2, Err) => (h2, [], Err)
          | (h2, Panic) => (h2, [], Panic)
          end
      | Err => (h1, [], Err)
      | Panic => (h1, [], Panic)
      end
  end.

(* the pinned algorithm (before fix F1):  backward(edge) *)
Fixpoint walk (fuel : nat) (st : heap * nat * res unit) (tgt : nat) (gradFn : heap -> res T)
  : heap * nat * res unit :=
  match fuel with
  | O => st
  | S f =>
      match st with
      | (h, cnt, Ok _) =>
          if negb (trackedOf h tgt) then st else
          let h1 := markDirty h [tgt] in
          match gradFn h1 with
          | Ok g =>
              match accumulate h1 tgt g with
              | (h2, Ok _) =>
                  fold_left (fun s e => walk f s (fst e) (fun hh => eval_rule rd hh (snd e)))
                            (edgesOf h2 tgt) (h2, S cnt, Ok tt)
              | (h2, r) => (h2, S cnt, r)
              end
          | Err => (h1, cnt, Err)
          | Panic => (h1, cnt, Panic)
          end
      | _ => st
      end
  end.

Definition bp_walk (fuel : nat) (h : heap) (root : nat) : heap * nat * res unit :=
  walk fuel (h, 0, Ok tt) root (fun hh => match valOf hh root with Some rv => toOnes rv | None => Panic end).

End Run.
End Backprop.
