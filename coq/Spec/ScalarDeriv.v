(* ScalarDeriv.v — derivatives of the scalar functions behind the differentiable operations,
   in the form the backward rules of gradients.go use them (Coquelicot [is_derive]). *)
From Coq Require Import Reals Lra Lia ZArith.
From Coquelicot Require Import Coquelicot.
From Qeep Require Import Model.Scalar Spec.RScalar.
Open Scope R_scope.

Lemma cosh_pos x : 0 < cosh x.
Proof. unfold cosh. pose proof (exp_pos x). pose proof (exp_pos (- x)). lra. Qed.

Lemma cosh2_sinh2 x : cosh x * cosh x - sinh x * sinh x = 1.
Proof.
  unfold cosh, sinh. replace ((exp x + exp (- x)) / 2 * ((exp x + exp (- x)) / 2) -
    (exp x - exp (- x)) / 2 * ((exp x - exp (- x)) / 2)) with (exp x * exp (- x)) by field.
  rewrite <- exp_plus. replace (x + - x) with 0 by ring. apply exp_0.
Qed.

Lemma d_exp x : is_derive exp x (exp x).
Proof. auto_derive; [exact I|ring]. Qed.

Lemma d_ln x : 0 < x -> is_derive ln x (/ x).
Proof. intros H. auto_derive; [exact H|field; lra]. Qed.

Lemma d_sin x : is_derive sin x (cos x).
Proof. auto_derive; [exact I|ring]. Qed.

Lemma d_cos x : is_derive cos x (- sin x).
Proof. auto_derive; [exact I|ring]. Qed.

Lemma d_tan x : cos x <> 0 -> is_derive tan x (/ (cos x) ^ 2).
Proof.
  intros H. unfold tan. auto_derive; [exact H|].
  pose proof (sin2_cos2 x) as E. unfold Rsqr in E.
  replace (/ cos x ^ 2) with ((sin x * sin x + cos x * cos x) / (cos x * cos x)) by (rewrite E; field; exact H).
  field. exact H.
Qed.

Lemma d_sinh x : is_derive sinh x (cosh x).
Proof. unfold sinh, cosh. auto_derive; [exact I|field]. Qed.

Lemma d_cosh x : is_derive cosh x (sinh x).
Proof. unfold sinh, cosh. auto_derive; [exact I|field]. Qed.

Lemma d_tanh x : is_derive tanh x (/ (cosh x) ^ 2).
Proof.
  unfold tanh.
  assert (Hc : cosh x <> 0) by (pose proof (cosh_pos x); lra).
  replace (/ cosh x ^ 2) with ((cosh x * cosh x - sinh x * sinh x) / (cosh x ^ 2))
    by (rewrite cosh2_sinh2; field; exact Hc).
  apply (is_derive_div sinh cosh x (cosh x) (sinh x)); [apply d_sinh|apply d_cosh|exact Hc].
Qed.

(* x^a for x > 0, any real exponent: a * x^(a-1) *)
Lemma d_Rpower x a : 0 < x -> is_derive (fun x => Rpower x a) x (a * Rpower x (a - 1)).
Proof.
  intros H. unfold Rpower. auto_derive; [exact H|].
  replace ((a - 1) * ln x) with (a * ln x + - ln x) by ring.
  rewrite exp_plus, exp_Ropp, exp_ln by exact H. field. lra.
Qed.

(* natural-number exponents at every x (including 0): n * x^(n-1) *)
Lemma d_pow_nat x n : is_derive (fun x => x ^ n) x (INR n * x ^ (pred n)).
Proof. auto_derive; [exact I|ring]. Qed.

(* negative integer exponents away from 0 *)
Lemma d_inv_pow x n : x <> 0 -> is_derive (fun x => / x ^ n) x (- INR n * / x ^ (S n)).
Proof.
  intros H. auto_derive; [apply pow_nonzero; exact H|].
  destruct n as [|n].
  - cbn. field. exact H.
  - cbn [Init.Nat.pred]. rewrite <- !tech_pow_Rmult. field. split; [apply pow_nonzero; exact H|exact H].
Qed.

(* scale, and the binary arithmetic operations in each argument *)
Lemma d_scale a x : is_derive (fun x => a * x) x a.
Proof. auto_derive; [exact I|ring]. Qed.
Lemma d_add_l b x : is_derive (fun x => x + b) x 1.
Proof. auto_derive; [exact I|ring]. Qed.
Lemma d_add_r a x : is_derive (fun x => a + x) x 1.
Proof. auto_derive; [exact I|ring]. Qed.
Lemma d_sub_l b x : is_derive (fun x => x - b) x 1.
Proof. auto_derive; [exact I|ring]. Qed.
Lemma d_sub_r a x : is_derive (fun x => a - x) x (-1).
Proof. auto_derive; [exact I|ring]. Qed.
Lemma d_mul_l b x : is_derive (fun x => x * b) x b.
Proof. auto_derive; [exact I|ring]. Qed.
Lemma d_mul_r a x : is_derive (fun x => a * x) x a.
Proof. auto_derive; [exact I|ring]. Qed.
Lemma d_div_l b x : b <> 0 -> is_derive (fun x => x / b) x (/ b).
Proof. intros H. auto_derive; [exact I|field; exact H]. Qed.
Lemma d_div_r a x : x <> 0 -> is_derive (fun x => a / x) x (- a / x ^ 2).
Proof. intros H. auto_derive; [exact H|field; exact H]. Qed.

(* logistic function as Sigmoid computes it: (1 + e^(-x))^(-1) *)
Definition sigm (x : R) : R := / (1 + exp (- x)).
Lemma d_sigm x : is_derive sigm x (sigm x * (1 - sigm x)).
Proof.
  unfold sigm. pose proof (exp_pos (- x)) as He.
  auto_derive; [lra|]. field. lra.
Qed.

(* max(0,x) and min(0,x) away from 0 *)
Lemma d_relu_pos x : 0 < x -> is_derive (fun x => Rmax 0 x) x 1.
Proof.
  intros H. apply (is_derive_ext_loc (fun x => x)); [|auto_derive; [exact I|ring]].
  exists (mkposreal x H). intros y Hy. unfold ball in Hy; cbn in Hy. unfold AbsRing_ball, abs, minus, plus, opp in Hy; cbn in Hy.
  apply Rabs_def2 in Hy. rewrite Rmax_right; lra.
Qed.
Lemma d_relu_neg x : x < 0 -> is_derive (fun x => Rmax 0 x) x 0.
Proof.
  intros H. assert (Hp : 0 < - x) by lra.
  apply (is_derive_ext_loc (fun _ => 0)); [|auto_derive; [exact I|ring]].
  exists (mkposreal (- x) Hp). intros y Hy. unfold ball in Hy; cbn in Hy. unfold AbsRing_ball, abs, minus, plus, opp in Hy; cbn in Hy.
  apply Rabs_def2 in Hy. rewrite Rmax_left; lra.
Qed.
