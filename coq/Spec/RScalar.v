(* RScalar.v — the instance of [Scalar] at Coq's real numbers, used by the analytic theorems.
   Floating point rounding, infinities and NaN are NOT modelled: [sneginf]/[sposinf] are
   placeholders (theorems about Max/Min are stated against an order-theoretic hypothesis
   instead), [spow] is x^y for x > 0 and the integer power for integral y.  The raw random
   draws are an abstract stream. *)
From Coq Require Import Reals ZArith Lra.
From Qeep Require Import Model.Scalar.
Open Scope R_scope.

Definition dec2R (m e : Z) : R := IZR m * powerRZ 10 e.

Definition Rpow (x y : R) : R :=
  if Req_EM_T y (IZR (Int_part y)) then powerRZ x (Int_part y) else Rpower x y.

Definition Rind (b : {0 = 0} + {0 <> 0} -> bool) := 0.   (* unused helper kept out of instances *)

Definition R01 (P : Prop) (d : {P} + {~ P}) : R := if d then 1 else 0.

Definition Rtrunc (x : R) : R :=
  if Rle_dec 0 x then IZR (Int_part x) else - IZR (Int_part (- x)).

Section Inst.
Variable thr : R.                    (* the library's absolute equality threshold *)
Variable draw : bool -> nat -> R.    (* the global random source, as an abstract stream *)

#[export] Instance R_scalar : Scalar R := {|
  s0 := 0; s1 := 1;
  sadd := Rplus; ssub := Rminus; smul := Rmult; sdiv := Rdiv; spow := Rpow;
  sexp := exp; slog := ln; ssin := sin; scos := cos; stan := tan;
  ssinh := sinh; scosh := cosh; stanh := tanh; ssqrt := sqrt;
  smax := Rmax; smin := Rmin;
  sselgt := fun a b => if Rgt_dec a b then a else b;
  ssellt := fun a b => if Rlt_dec a b then a else b;
  seqt := fun a b => if Rle_dec (Rabs (a - b)) thr then 1 else 0;
  snet := fun a b => if Rle_dec (Rabs (a - b)) thr then 0 else 1;
  sgt := fun a b => if Rgt_dec a b then 1 else 0;
  sge := fun a b => if Rge_dec a b then 1 else 0;
  slt := fun a b => if Rlt_dec a b then 1 else 0;
  sle := fun a b => if Rle_dec a b then 1 else 0;
  sgeb := fun a b => if Rge_dec a b then 1 else 0;
  strunc := Rtrunc;
  sofnat := INR;
  sconst := dec2R;
  sneginf := 0; sposinf := 0;
  srnd := draw
|}.
End Inst.
