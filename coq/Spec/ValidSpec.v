(* ValidSpec.v — the documented preconditions of the public calls, written declaratively
   (Forall / Forall2 / nth_error / arithmetic on Z) and independently of the boolean validators
   of Model/Valid.v.  Definitions only; the equivalences are proved in Proofs/ValidP.v. *)
From Coq Require Import List Arith ZArith Bool.
From Qeep Require Import Model.Nd Model.Data Model.Grad Model.Components.
Import ListNotations.
Local Open Scope Z_scope.

(* ---------- 1. constructors: every requested extent is positive ---------- *)
Definition inputDimsPre (dims : list Z) : Prop := Forall (fun d => 0 < d) dims.

(* ---------- 2. At: a full index, every coordinate inside its extent ---------- *)
Definition atIndexPre (index dims : list Z) : Prop :=
  length index = length dims /\ Forall2 (fun i d => 0 <= i < d) index dims.

(* ---------- 3. Slice: at most rank ranges; each is the wildcard (0,0) or a non-empty
   sub-range [f,t) of [0,d) ---------- *)
Definition rangePre (r : Z * Z) (d : Z) : Prop :=
  (fst r = 0 /\ snd r = 0) \/ (0 <= fst r /\ fst r < snd r /\ snd r <= d).
Definition sliceIndexPre (index : list (Z * Z)) (dims : list Z) : Prop :=
  (length index <= length dims)%nat /\ Forall2 rangePre index (firstn (length index) dims).

(* ---------- 4. Patch: same rank, source fits, index is a slice index of the target whose
   non-wildcard ranges have exactly the source's extent ---------- *)
Definition coverPre (r : Z * Z) (s : Z) : Prop :=
  (fst r = 0 /\ snd r = 0) \/ snd r - fst r = s.
Definition patchIndexPre (index : list (Z * Z)) (src dst : list Z) : Prop :=
  length src = length dst /\ Forall2 Z.le src dst /\ sliceIndexPre index dst /\
  (length index <= length src)%nat /\ Forall2 coverPre index (firstn (length index) src).

(* ---------- 5. Concat along dim: every shape has the rank of the first one (>= 1), dim is an
   axis, and all shapes agree with the first one off the axis ---------- *)
Definition concatShapePre (base : list Z) (dim : Z) (ds : list Z) : Prop :=
  length ds = length base /\ (1 <= length base)%nat /\ 0 <= dim < Z.of_nat (length base) /\
  forall j : nat, j <> Z.to_nat dim -> nth_error ds j = nth_error base j.
Definition concatPre (base : list Z) (rest : list (list Z)) (dim : Z) : Prop :=
  Forall (concatShapePre base dim) (base :: rest).

(* ---------- 6. operators ---------- *)
Definition sameDimsPre (d1 d2 : list Z) : Prop := d1 = d2.
(* both of rank >= 1 and the last extents agree *)
Definition dotPre (d1 d2 : list Z) : Prop :=
  (1 <= length d1)%nat /\ (1 <= length d2)%nat /\
  nth_error d1 (length d1 - 1) = nth_error d2 (length d2 - 1).
(* both of rank >= 2 and  last d1 = second-to-last d2 *)
Definition matMulPre (d1 d2 : list Z) : Prop :=
  (2 <= length d1)%nat /\ (2 <= length d2)%nat /\
  nth_error d1 (length d1 - 1) = nth_error d2 (length d2 - 2).
(* the same, by decomposition *)
Definition dotPre' (d1 d2 : list Z) : Prop := exists p1 p2 a, d1 = p1 ++ [a] /\ d2 = p2 ++ [a].
Definition matMulPre' (d1 d2 : list Z) : Prop :=
  exists p1 m k p2 n, d1 = p1 ++ [m; k] /\ d2 = p2 ++ [k; n].

(* ---------- 7. reducers / shape modifiers ---------- *)
Definition axisPre (dim : Z) (dims : list Z) : Prop := 0 <= dim < Z.of_nat (length dims).
Definition unSqueezePre (dim : Z) (dims : list Z) : Prop := 0 <= dim <= Z.of_nat (length dims).
Definition squeezePre (dim : Z) (dims : list Z) : Prop :=
  0 <= dim < Z.of_nat (length dims) /\ nth_error dims (Z.to_nat dim) = Some 1.
Definition transposePre (dims : list Z) : Prop := (2 <= length dims)%nat.
Definition numElems (dims : list Z) : Z := fold_right Z.mul 1 dims.
Definition reshapePre (src dst : list Z) : Prop := numElems dst = numElems src.
(* right-aligned: the source extents against the last (length src) target extents *)
Definition bcastDimPre (s d : Z) : Prop := s = d \/ s = 1.
Definition broadcastPre (src dst : list Z) : Prop :=
  (length src <= length dst)%nat /\
  Forall2 bcastDimPre src (skipn (length dst - length src) dst).
(* the same on the reversed (last dimension first) lists *)
Definition broadcastPre' (src dst : list Z) : Prop :=
  (length src <= length dst)%nat /\
  Forall2 bcastDimPre (rev src) (firstn (length src) (rev dst)).

(* ---------- 8. TensorOf: rectangular data without an empty level ---------- *)
Fixpoint uniformDepth {A} (n : nat) (x : nd A) {struct n} : Prop :=
  match n, x with
  | O, Sc _ => True
  | S n', Vec l => Forall (uniformDepth n') l
  | _, _ => False
  end.
Definition dataPre {A} (x : nd A) : Prop :=
  wfnd (shapeOf x) x /\ Forall (fun d => (0 < d)%nat) (shapeOf x).

(* ---------- 10. components ---------- *)
Definition oneInputPre (xs : list targ) (x : nat) : Prop := xs = [Some x].

(* both arguments present, both rank-1 tensors of the heap, of the same length *)
Definition lossArgs1Pre {A} (h : @heap A) (yp yt : targ) (p t : nat) : Prop :=
  yp = Some p /\ yt = Some t /\
  exists vp vt n, valOf h p = Some vp /\ valOf h t = Some vt /\ dims vp = [n] /\ dims vt = [n].

(* m1 * 10^e1 < m2 * 10^e2, scaled to integers by the smaller exponent *)
Definition decLt (a b : dec) : Prop :=
  let e := Z.min (snd a) (snd b) in fst a * 10 ^ (snd a - e) < fst b * 10 ^ (snd b - e).

Definition initPre (dUniL dUniU dNorS : dec) (s : initSpec) : Prop :=
  match s with
  | IFull _ => True
  | IUniform None => decLt dUniL dUniU
  | IUniform (Some (l, u)) => decLt l u
  | INormal None => 0 < fst dNorS
  | INormal (Some (_, sd)) => 0 < fst sd
  | IHeUniform (Some f) | IHeNormal (Some f) => 0 < f
  | IXavierUniform (Some (fi, fo)) | IXavierNormal (Some (fi, fo)) => 0 < fi /\ 0 < fo
  | IHeUniform None | IHeNormal None | IXavierUniform None | IXavierNormal None => False
  end.
