(* VjpSpec.v — what "the backward rule is the vector-Jacobian product" means (C02, C07).
   A tensor of reals of shape [ds] is read as the assignment  idx |-> element  (an index
   function); an operation is a map F between such assignments.  [is_partial F x i j d]:
   d is the partial derivative of output element j with respect to input element i at x
   (one-variable derivative along the i-th coordinate line, Coquelicot [is_derive]).
   [is_vjp dsx dsy F x gy g]: for every input position i,  g i = Σ_j gy j * ∂F_j/∂x_i (x). *)
From Coq Require Import List Arith Bool Lia Reals Lra FinFun.
From Coquelicot Require Import Coquelicot.
From Qeep Require Import Model.Nd Proofs.NdP.
Import ListNotations.
Local Open Scope nat_scope.

(* all valid multi-indices of a shape, in row-major order *)
Fixpoint allIdx (ds : list nat) : list (list nat) :=
  match ds with
  | [] => [[]]
  | d :: r => flat_map (fun i => map (cons i) (allIdx r)) (seq 0 d)
  end.

Lemma allIdx_spec ds : forall idx, In idx (allIdx ds) <-> validIdx ds idx.
Proof.
  induction ds as [|d ds IH]; intros idx; cbn.
  - rewrite validIdx_nil. split; [intros [H|[]]; auto|intros ->; left; reflexivity].
  - rewrite in_flat_map, validIdx_cons. split.
    + intros (i & Hi & Hm). apply in_seq in Hi. apply in_map_iff in Hm as (r & <- & Hr).
      exists i, r. split; [reflexivity|]. split; [lia|apply IH; exact Hr].
    + intros (i & r & -> & Hi & Hr). exists i. split; [apply in_seq; lia|].
      apply in_map. apply IH; exact Hr.
Qed.

Lemma NoDup_app_intro {T} (l1 l2 : list T) :
  NoDup l1 -> NoDup l2 -> (forall x, In x l1 -> In x l2 -> False) -> NoDup (l1 ++ l2).
Proof.
  induction l1 as [|a l1 IH]; intros H1 H2 Hd; cbn; [exact H2|].
  inversion H1 as [|? ? Hna H1']; subst. constructor.
  - intros Hin. apply in_app_or in Hin as [Hin|Hin]; [contradiction|]. apply (Hd a); [left; reflexivity|exact Hin].
  - apply IH; [exact H1'|exact H2|]. intros x Hx Hy. apply (Hd x); [right; exact Hx|exact Hy].
Qed.

Lemma allIdx_NoDup ds : NoDup (allIdx ds).
Proof.
  induction ds as [|d ds IH]; cbn; [constructor; [intros []|constructor]|].
  assert (H : forall n s, NoDup (flat_map (fun i => map (cons i) (allIdx ds)) (seq s n))).
  { induction n as [|n IHn]; intros s; cbn; [constructor|].
    apply NoDup_app_intro.
    - apply FinFun.Injective_map_NoDup; [intros a b E; congruence|exact IH].
    - apply IHn.
    - intros x Hx Hy. apply in_map_iff in Hx as (r & <- & _).
      apply in_flat_map in Hy as (j & Hj & Hm). apply in_seq in Hj.
      apply in_map_iff in Hm as (r' & E & _). inversion E. lia. }
  apply H.
Qed.

Local Open Scope R_scope.

Definition sumIdx (ds : list nat) (f : list nat -> R) : R := fold_right Rplus 0 (map f (allIdx ds)).

Lemma sum_ext_in (l : list (list nat)) (f g : list nat -> R) :
  (forall x, In x l -> f x = g x) -> fold_right Rplus 0 (map f l) = fold_right Rplus 0 (map g l).
Proof.
  induction l as [|a l IH]; intros H; cbn; [reflexivity|].
  rewrite (H a (or_introl eq_refl)), IH; [reflexivity|]. intros x Hx; apply H; right; exact Hx.
Qed.

Lemma sumIdx_ext ds f g : (forall idx, validIdx ds idx -> f idx = g idx) -> sumIdx ds f = sumIdx ds g.
Proof. intros H. apply sum_ext_in. intros x Hx. apply H. apply allIdx_spec; exact Hx. Qed.

Lemma sum_zero (l : list (list nat)) : fold_right Rplus 0 (map (fun _ => 0) l) = 0.
Proof. induction l as [|a l IH]; cbn; [reflexivity|rewrite IH; ring]. Qed.

Lemma sumIdx_plus ds f g : sumIdx ds (fun i => f i + g i) = sumIdx ds f + sumIdx ds g.
Proof. unfold sumIdx. induction (allIdx ds) as [|a l IH]; cbn; [ring|rewrite IH; ring]. Qed.

Lemma sumIdx_scal ds c f : sumIdx ds (fun i => c * f i) = c * sumIdx ds f.
Proof. unfold sumIdx. induction (allIdx ds) as [|a l IH]; cbn; [ring|rewrite IH; ring]. Qed.

Definition idx_eqb (a b : list nat) : bool := if list_eq_dec Nat.eq_dec a b then true else false.
Lemma idx_eqb_eq a b : idx_eqb a b = true <-> a = b.
Proof. unfold idx_eqb. destruct (list_eq_dec Nat.eq_dec a b); split; congruence. Qed.

(* Σ_j [j = i] * f j = f i *)
Lemma sum_single (l : list (list nat)) (i : list nat) (f : list nat -> R) :
  NoDup l -> In i l -> fold_right Rplus 0 (map (fun j => if idx_eqb j i then f j else 0) l) = f i.
Proof.
  induction l as [|a l IH]; intros Hnd Hin; [destruct Hin|].
  inversion Hnd as [|? ? Hna Hnd']; subst. cbn. destruct Hin as [->|Hin].
  - assert (E : idx_eqb i i = true) by (apply idx_eqb_eq; reflexivity). rewrite E.
    rewrite (sum_ext_in l _ (fun _ => 0)); [rewrite sum_zero; ring|].
    intros x Hx. destruct (idx_eqb x i) eqn:Ex; [|reflexivity]. apply idx_eqb_eq in Ex; subst. contradiction.
  - destruct (idx_eqb a i) eqn:Ea; [apply idx_eqb_eq in Ea; subst; contradiction|].
    rewrite IH by assumption. ring.
Qed.

Lemma sumIdx_single ds i f : validIdx ds i -> sumIdx ds (fun j => if idx_eqb j i then f j else 0) = f i.
Proof. intros H. apply sum_single; [apply allIdx_NoDup|apply allIdx_spec; exact H]. Qed.

(* ---------- partial derivatives and the vector-Jacobian product ---------- *)
Definition assignment := list nat -> R.

Definition perturb (x : assignment) (i : list nat) (t : R) : assignment :=
  fun k => if idx_eqb k i then x k + t else x k.

Lemma perturb_0 x i : forall k, perturb x i 0 k = x k.
Proof. intros k. unfold perturb. destruct (idx_eqb k i); ring. Qed.

Definition is_partial (F : assignment -> assignment) (x : assignment) (i j : list nat) (d : R) : Prop :=
  is_derive (fun t => F (perturb x i t) j) 0 d.

Definition is_vjp (dsx dsy : list nat) (F : assignment -> assignment) (x gy g : assignment) : Prop :=
  forall i, validIdx dsx i ->
    exists D : assignment,
      (forall j, validIdx dsy j -> is_partial F x i j (D j)) /\
      g i = sumIdx dsy (fun j => gy j * D j).

(* reading a tensor of reals as an assignment, and back *)
Definition elt (t : tensor R) : assignment := fun idx => match get (data t) idx with Some v => v | None => 0 end.
Definition ofFun (ds : list nat) (f : assignment) : tensor R := mkT ds (tab ds f).

Lemma elt_ofFun ds f idx : validIdx ds idx -> elt (ofFun ds f) idx = f idx.
Proof. intros H. unfold elt, ofFun; cbn. rewrite get_tab by exact H. reflexivity. Qed.

Lemma ofFun_wf ds f : List.Forall (fun d : nat => lt 0 d) ds -> wf (ofFun ds f).
Proof. intros H. split; [apply wfnd_tab|exact H]. Qed.

Lemma ofFun_elt (t : tensor R) : wfnd (dims t) (data t) -> ofFun (dims t) (elt t) = t.
Proof.
  intros H. destruct t as [ds x]; cbn in *. unfold ofFun, elt; cbn. f_equal.
  symmetry. apply (tab_get R ds 0). exact H.
Qed.
